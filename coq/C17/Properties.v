(* C17 - Homogenized mobilities respect classical bounds and address phases by name.
   This file contains ONLY the property theorems; each is closed by [exact] of a lemma of Proofs.v
   and followed by Print Assumptions.  The rule theorems are about the real-number instance [Rops]
   of the model in Model.v (kawin/diffusion/HomogenizationParameters.py); the post-processing and
   cache theorems hold for every scalar instance.
   Pairs are (phase fraction, phase mobility) for one element; [pos_pair]: fraction >= 0 and
   mobility defined (> 0); [sumF]: sum of the fractions. *)
From Coq Require Import Reals QArith Qreals List Arith Permutation.
Require Import Kawin.Common.Ops Kawin.Common.Vec Kawin.Common.VecLemmas Kawin.C17.Model Kawin.C17.Proofs Kawin.C17.Hom.
Import ListNotations.
Open Scope R_scope.

(* _hashinShtrikmanGeneral with reference mobility m0 equals (sum_i f_i / (2 m0 + m_i))^-1 - 2 m0 *)
Theorem C17_hs_closed_form fm m0 : 0 < m0 -> Forall pos_pair fm -> sumF fm = 1 ->
  hsGeneralP Rops fm m0 = / wsum (fun p => fst p * / (2 * m0 + snd p)) fm - 2 * m0.
Proof. exact (hs_closed_form fm m0). Qed.
Print Assumptions C17_hs_closed_form.

(* c |-> (sum_i f_i / (c + m_i))^-1 - c is non-decreasing (weighted Chebyshev sum inequality) *)
Theorem C17_H_monotone fm c d : Forall pos_pair fm -> sumF fm = 1 -> 0 <= c <= d -> H fm c <= H fm d.
Proof. exact (H_monotone fm c d). Qed.
Print Assumptions C17_H_monotone.

(* smallest mobility <= lower Wiener <= lower HS <= upper HS <= upper Wiener <= largest mobility,
   any number of phases *)
Theorem C17_bounds_ordered fm : Forall pos_pair fm -> sumF fm = 1 ->
  minM fm <= wienerLowerP Rops fm /\
  wienerLowerP Rops fm <= hsLowerP Rops fm /\
  hsLowerP Rops fm <= hsUpperP Rops fm /\
  hsUpperP Rops fm <= wienerUpperP Rops fm /\
  wienerUpperP Rops fm <= maxM fm.
Proof. exact (bounds_ordered fm). Qed.
Print Assumptions C17_bounds_ordered.

(* the same for a column of the mobility matrix as the code processes it (substitution of
   undefined entries included, for any value of the two float constants) *)
Theorem C17_bounds_column tiny maxf fr col : length fr = length col ->
  Forall (fun f => 0 <= f) fr -> Forall (fun m => 0 < m) col -> sumR fr = 1 ->
  minOf Rops col <= wienerLowerC Rops maxf fr col /\
  wienerLowerC Rops maxf fr col <= hsLowerC Rops maxf fr col /\
  hsLowerC Rops maxf fr col <= hsUpperC Rops tiny fr col /\
  hsUpperC Rops tiny fr col <= wienerUpperC Rops tiny fr col /\
  wienerUpperC Rops tiny fr col <= maxOf Rops col.
Proof. exact (bounds_column tiny maxf fr col). Qed.
Print Assumptions C17_bounds_column.

(* entry j of what a rule returns for the (p, e) matrix is the rule on column j *)
Theorem C17_matrix_entry tiny maxf r pw e mob fr j : (j < e)%nat ->
  nth j (applyRule Rops tiny maxf r pw e mob fr) 0 = ruleC Rops tiny maxf r pw fr (col Rops j mob).
Proof. exact (applyRule_entry_R tiny maxf r pw e mob fr j). Qed.
Print Assumptions C17_matrix_entry.

(* independent of the order in which the phases are listed: pair form ... *)
Theorem C17_rules_perm pw fm fm' : Permutation fm fm' ->
  wienerLowerP Rops fm = wienerLowerP Rops fm' /\ hsLowerP Rops fm = hsLowerP Rops fm' /\
  hsUpperP Rops fm = hsUpperP Rops fm' /\ wienerUpperP Rops fm = wienerUpperP Rops fm' /\
  labyrinthP pw fm = labyrinthP pw fm'.
Proof. exact (rulesP_perm pw fm fm'). Qed.
Print Assumptions C17_rules_perm.

(* ... and matrix form (rows permuted together with their fractions; undefined entries allowed) *)
Theorem C17_matrix_perm tiny maxf r pw e mob fr mob' fr' :
  Permutation (combine fr mob) (combine fr' mob') ->
  applyRule Rops tiny maxf r pw e mob fr = applyRule Rops tiny maxf r pw e mob' fr'.
Proof. exact (applyRule_perm tiny maxf r pw e mob fr mob' fr'). Qed.
Print Assumptions C17_matrix_perm.

(* a single phase: every rule returns its mobility *)
Theorem C17_single_phase m pw : m <> 0 -> pw 1 = 1 ->
  wienerLowerP Rops [(1, m)] = m /\ hsLowerP Rops [(1, m)] = m /\ hsUpperP Rops [(1, m)] = m /\
  wienerUpperP Rops [(1, m)] = m /\ labyrinthP pw [(1, m)] = m.
Proof. exact (single_phase m pw). Qed.
Print Assumptions C17_single_phase.

(* also when further phases are listed with fraction zero *)
Theorem C17_whole_fraction l1 l2 m : Forall pos_pair l1 -> Forall pos_pair l2 -> 0 < m ->
  Forall (fun p => fst p = 0) l1 -> Forall (fun p => fst p = 0) l2 ->
  let fm := l1 ++ (1, m) :: l2 in
  wienerLowerP Rops fm = m /\ hsLowerP Rops fm = m /\ hsUpperP Rops fm = m /\ wienerUpperP Rops fm = m.
Proof. exact (whole_fraction l1 l2 m). Qed.
Print Assumptions C17_whole_fraction.

(* labyrinth with factor 1 is upper Wiener (np.power(f, 1) = f) *)
Theorem C17_labyrinth_one tiny fr col : Forall (fun f => 0 <= f) fr ->
  labyrinthC Rops tiny (powR 1) fr col = wienerUpperC Rops tiny fr col.
Proof. exact (labyrinth_one_column tiny fr col). Qed.
Print Assumptions C17_labyrinth_one.

(* labyrinth never exceeds upper Wiener: for every power oracle that does not increase a
   fraction in [0, 1] ... *)
Theorem C17_labyrinth_le tiny pw fr col : (forall f, 0 <= f <= 1 -> pw f <= f) ->
  length fr = length col -> Forall (fun f => 0 <= f) fr -> Forall (fun m => 0 < m) col -> sumR fr = 1 ->
  labyrinthC Rops tiny pw fr col <= wienerUpperC Rops tiny fr col.
Proof. exact (labyrinth_le_column tiny pw fr col). Qed.
Print Assumptions C17_labyrinth_le.

(* ... in particular for the real power f ** n with any real factor n >= 1 *)
Theorem C17_labyrinth_real_le tiny n fr col : 1 <= n ->
  length fr = length col -> Forall (fun f => 0 <= f) fr -> Forall (fun m => 0 < m) col -> sumR fr = 1 ->
  labyrinthC Rops tiny (powR n) fr col <= wienerUpperC Rops tiny fr col.
Proof. exact (labyrinth_real_le_column tiny n fr col). Qed.
Print Assumptions C17_labyrinth_real_le.

(* 'predefined' acts on the phase the user NAMED: with k the first composition set whose name is a,
   every undefined entry (i, j) becomes entry (k, j); defined entries and fractions are unchanged *)
Theorem C17_predefined_by_name (O : Ops) a (d : mobData O) k i j e :
  (k < length (d_phases d))%nat -> nth k (d_phases d) 0%nat = a ->
  (forall j', (j' < k)%nat -> nth j' (d_phases d) 0%nat <> a) ->
  length (d_mob d) = length (d_phases d) -> Forall (fun row => length row = e) (d_mob d) ->
  (i < length (d_mob d))%nat -> (j < e)%nat ->
  entry O (d_mob (postPredefined O a d)) i j =
    (if eqb O (entry O (d_mob d) i j) (neg1 O) then entry O (d_mob d) k j else entry O (d_mob d) i j) /\
  d_fracs (postPredefined O a d) = d_fracs d.
Proof. exact (predefined_by_name O a d k i j e). Qed.
Print Assumptions C17_predefined_by_name.

(* ... and does nothing (in particular does not fail) where the named phase is not stable, e.g. in a
   single-phase region of another phase *)
Theorem C17_predefined_absent (O : Ops) a (d : mobData O) : ~ In a (d_phases d) -> postPredefined O a d = d.
Proof. exact (postPredefined_absent O a d). Qed.
Print Assumptions C17_predefined_absent.

(* 'exclude' zeroes the fraction of exactly the composition sets whose NAME is in the list *)
Theorem C17_exclude_by_name (O : Ops) ex (d : mobData O) k :
  length (d_phases d) = length (d_fracs d) -> (k < length (d_phases d))%nat ->
  (In (nth k (d_phases d) 0%nat) ex -> nth k (d_fracs (postExclude O ex d)) (zero O) = zero O) /\
  (~ In (nth k (d_phases d) 0%nat) ex -> nth k (d_fracs (postExclude O ex d)) (zero O) = nth k (d_fracs d) (zero O)) /\
  length (d_fracs (postExclude O ex d)) = length (d_fracs d) /\
  d_mob (postExclude O ex d) = d_mob d.
Proof. exact (exclude_by_name O ex d k). Qed.
Print Assumptions C17_exclude_by_name.

(* 'majority' takes the row of the (first) largest phase fraction *)
Theorem C17_majority_largest (d : mobData Rops) i j e :
  d_fracs d <> [] -> length (d_mob d) = length (d_fracs d) -> Forall (fun row => length row = e) (d_mob d) ->
  (i < length (d_mob d))%nat -> (j < e)%nat ->
  let k := argmaxT Rops (d_fracs d) in
  (forall i', (i' < length (d_fracs d))%nat -> nth i' (d_fracs d) 0 <= nth k (d_fracs d) 0) /\
  (forall i', (i' < k)%nat -> nth i' (d_fracs d) 0 < nth k (d_fracs d) 0) /\
  entry Rops (d_mob (postMajority Rops d)) i j =
    (if Reqb (entry Rops (d_mob d) i j) (-1) then entry Rops (d_mob d) k j else entry Rops (d_mob d) i j) /\
  d_fracs (postMajority Rops d) = d_fracs d.
Proof. exact (majority_largest d i j e). Qed.
Print Assumptions C17_majority_largest.

(* with the hash table on, every evaluation in any history of evaluations (options may change in
   between) returns what a cache-free evaluation of that point with the current options returns *)
Theorem C17_eval_history_independent (O : Ops) tiny maxf backend e l :
  evalSeq O tiny maxf backend e l [] = map (fun ok => homogenize O tiny maxf e (fst ok) (backend (snd ok))) l.
Proof. exact (eval_history_independent O tiny maxf backend e l). Qed.
Print Assumptions C17_eval_history_independent.

(* evaluating the same point twice gives the same answer, after any history *)
Theorem C17_eval_twice_same (O : Ops) tiny maxf backend e hist o k :
  exists before v, evalSeq O tiny maxf backend e (hist ++ [(o, k); (o, k)]) [] = before ++ [v; v]
                   /\ v = homogenize O tiny maxf e o (backend k) /\ length before = length hist.
Proof. exact (eval_twice_same O tiny maxf backend e hist o k). Qed.
Print Assumptions C17_eval_twice_same.

(* the exact-rational instance that vm_compute executes in the correspondence check computes the
   values of the real-number model the theorems above are about (fractions >= 0 summing to one,
   defined mobilities) ... *)
Theorem C17_exec_is_model fm : Forall pos_pairQ fm -> (sumT Qops (map fst fm) == 1)%Q ->
  Q2R (wienerLowerP Qops fm) = wienerLowerP Rops (map q2r_pair fm) /\
  Q2R (hsLowerP Qops fm) = hsLowerP Rops (map q2r_pair fm) /\
  Q2R (hsUpperP Qops fm) = hsUpperP Rops (map q2r_pair fm) /\
  Q2R (wienerUpperP Qops fm) = wienerUpperP Rops (map q2r_pair fm) /\
  Q2R (minOf Qops (map snd fm)) = minM (map q2r_pair fm) /\
  Q2R (maxOf Qops (map snd fm)) = maxM (map q2r_pair fm).
Proof. exact (rules_Q2R fm). Qed.
Print Assumptions C17_exec_is_model.

(* ... so the ordering holds for the rational numbers it produces *)
Theorem C17_bounds_ordered_exec fm : Forall pos_pairQ fm -> (sumT Qops (map fst fm) == 1)%Q ->
  (minOf Qops (map snd fm) <= wienerLowerP Qops fm)%Q /\
  (wienerLowerP Qops fm <= hsLowerP Qops fm)%Q /\
  (hsLowerP Qops fm <= hsUpperP Qops fm)%Q /\
  (hsUpperP Qops fm <= wienerUpperP Qops fm)%Q /\
  (wienerUpperP Qops fm <= maxOf Qops (map snd fm))%Q.
Proof. exact (bounds_ordered_Q fm). Qed.
Print Assumptions C17_bounds_ordered_exec.

(* ---- configuration layer ---------------------------------------------------------------------
   c0 = what the constructor stored (its labyrinthFactor argument is documented as "between 1 and 2");
   ops = any sequence of setter calls, on the parameter object or through HomogenizationModel, with
   ANY real factor handed to setLabyrinthFactor *)
Theorem C17_config_factor_in_range (c0 : config Rops) ops : 1 <= c_factor c0 <= 2 ->
  1 <= c_factor (configure Rops c0 ops) <= 2.
Proof. exact (configure_factor_range c0 ops). Qed.
Print Assumptions C17_config_factor_in_range.

(* hence the configured labyrinth rule never exceeds upper Wiener, whatever was handed to the setters *)
Theorem C17_config_labyrinth_le tiny (c0 : config Rops) ops fr col : 1 <= c_factor c0 <= 2 ->
  length fr = length col -> Forall (fun f => 0 <= f) fr -> Forall (fun m => 0 < m) col -> sumR fr = 1 ->
  labyrinthC Rops tiny (powR (c_factor (configure Rops c0 ops))) fr col <= wienerUpperC Rops tiny fr col.
Proof. exact (config_labyrinth_le tiny c0 ops fr col). Qed.
Print Assumptions C17_config_labyrinth_le.

(* a setter changes the option it names and nothing else; the last call decides *)
Theorem C17_config_last_call (O : Ops) (c0 : config O) ops op :
  let c := configure O c0 ops in
  configure O c0 (ops ++ [op]) =
    match op with
    | OpRule r => mkCfg r (c_factor c) (c_post c)
    | OpLab n => mkCfg (c_rule c) (clampLab O n) (c_post c)
    | OpPost p => mkCfg (c_rule c) (c_factor c) p
    end.
Proof. exact (configure_last O c0 ops op). Qed.
Print Assumptions C17_config_last_call.
