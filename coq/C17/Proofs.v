(* C17 - lemmas about the real-number instance of the homogenisation rules, and about the
   post-processing / cache model (any scalar instance). *)
From Coq Require Import Reals List Bool ZArith Arith Lia Lra Psatz Permutation.
Require Import Kawin.Common.Ops Kawin.Common.Vec Kawin.Common.VecLemmas Kawin.C17.Model.
Import ListNotations.
Open Scope R_scope.

Tactic Notation "lia" := (cbn [T Rops] in *; Lia.lia).
Tactic Notation "lra" := (cbn [T Rops] in *; Lra.lra).
Tactic Notation "nra" := (cbn [T Rops] in *; Lra.nra).

(* ---- weighted sums over (fraction, mobility) pairs ------------------------------------ *)
Definition wsum (w : R * R -> R) (l : list (R * R)) : R := sumR (map w l).
Definition sumF (l : list (R * R)) : R := wsum fst l.
(* fraction >= 0, mobility defined (> 0) *)
Definition pos_pair (p : R * R) : Prop := 0 <= fst p /\ 0 < snd p.

Lemma wsum_nil w : wsum w [] = 0.
Proof. reflexivity. Qed.
Lemma wsum_cons w p l : wsum w (p :: l) = w p + wsum w l.
Proof. reflexivity. Qed.

Lemma wsum_ext (w1 w2 : R * R -> R) l : Forall (fun p => w1 p = w2 p) l -> wsum w1 l = wsum w2 l.
Proof. induction 1 as [|p l Hp _ IH]; [reflexivity|]. rewrite !wsum_cons, Hp, IH. reflexivity. Qed.

Lemma wsum_perm w l l' : Permutation l l' -> wsum w l = wsum w l'.
Proof. induction 1; rewrite ?wsum_cons in *; lra. Qed.

Lemma wsum_scal w k l : wsum (fun p => k * w p) l = k * wsum w l.
Proof. induction l as [|p l IH]; rewrite ?wsum_cons, ?wsum_nil; [lra|]. rewrite IH. lra. Qed.

Lemma wsum_le (w1 w2 : R * R -> R) l : Forall (fun p => w1 p <= w2 p) l -> wsum w1 l <= wsum w2 l.
Proof. induction 1 as [|p l Hp _ IH]; rewrite ?wsum_cons, ?wsum_nil; lra. Qed.

Lemma sumF_nonneg l : Forall pos_pair l -> 0 <= sumF l.
Proof. unfold sumF. induction 1 as [|p l [Hf _] _ IH]; rewrite ?wsum_cons, ?wsum_nil; lra. Qed.

(* sum_i f_i / (e + m_i) > 0 *)
Lemma winv_pos l e : Forall pos_pair l -> 0 < sumF l -> 0 <= e ->
  0 < wsum (fun p => fst p * / (e + snd p)) l.
Proof.
  intros Hl Hs He.
  assert (Gen : 0 <= wsum (fun p => fst p * / (e + snd p)) l /\
                (0 < sumF l -> 0 < wsum (fun p => fst p * / (e + snd p)) l)).
  { clear Hs. induction Hl as [|p l0 [Hf Hm] Hl0 [IH1 IH2]]; unfold sumF in *;
      rewrite ?wsum_cons, ?wsum_nil; [split; lra|].
    assert (0 < / (e + snd p)) by (apply Rinv_0_lt_compat; lra).
    pose proof (sumF_nonneg l0 Hl0) as Hn. unfold sumF in Hn.
    split; [nra|]. intros Hs. destruct (Rle_lt_or_eq_dec 0 (fst p) Hf) as [Hlt|Heq]; [nra|].
    rewrite <- Heq in *. assert (Hpos : 0 < wsum fst l0) by lra. specialize (IH2 Hpos). nra. }
  apply Gen; assumption.
Qed.

(* ---- weighted Chebyshev sum inequality -------------------------------------------------- *)
Section Cheb.
Variables c d : R.
Hypothesis Hc : 0 <= c.
Hypothesis Hcd : c <= d.
Definition ca (p : R * R) := / (c + snd p).
Definition cb (p : R * R) := / (d + snd p).
Definition S1 := wsum fst.
Definition Sa := wsum (fun p => fst p * ca p).
Definition Sb := wsum (fun p => fst p * cb p).
Definition Sab := wsum (fun p => fst p * ca p * cb p).

Lemma same_order p q : pos_pair p -> pos_pair q -> 0 <= (ca p - ca q) * (cb p - cb q).
Proof.
  intros [_ Hp] [_ Hq]. unfold ca, cb.
  assert (E1 : / (c + snd p) - / (c + snd q) = (snd q - snd p) * (/ (c + snd p) * / (c + snd q))) by (field; lra).
  assert (E2 : / (d + snd p) - / (d + snd q) = (snd q - snd p) * (/ (d + snd p) * / (d + snd q))) by (field; lra).
  rewrite E1, E2.
  assert (0 < / (c + snd p) * / (c + snd q)) by (apply Rmult_lt_0_compat; apply Rinv_0_lt_compat; lra).
  assert (0 < / (d + snd p) * / (d + snd q)) by (apply Rmult_lt_0_compat; apply Rinv_0_lt_compat; lra).
  set (X := / (c + snd p) * / (c + snd q)) in *. set (Y := / (d + snd p) * / (d + snd q)) in *.
  replace ((snd q - snd p) * X * ((snd q - snd p) * Y)) with ((snd q - snd p)^2 * (X * Y)) by ring.
  apply Rmult_le_pos; [apply pow2_ge_0|]. apply Rlt_le, Rmult_lt_0_compat; assumption.
Qed.

Lemma cross_nonneg l q : Forall pos_pair l -> pos_pair q ->
  0 <= Sab l + S1 l * (ca q * cb q) - ca q * Sb l - cb q * Sa l.
Proof.
  induction 1 as [|p l Hp Hl IH]; intros Hq; unfold Sab, S1, Sb, Sa in *;
    rewrite ?wsum_cons, ?wsum_nil.
  - lra.
  - specialize (IH Hq). pose proof (same_order p q Hp Hq) as Ho. destruct Hp as [Hf _]. nra.
Qed.

Lemma chebyshev l : Forall pos_pair l -> Sa l * Sb l <= S1 l * Sab l.
Proof.
  induction 1 as [|p l Hp Hl IH]; unfold Sab, S1, Sb, Sa in *; rewrite ?wsum_cons, ?wsum_nil; [lra|].
  pose proof (cross_nonneg l p Hl Hp) as Hx. unfold Sab, S1, Sb, Sa in Hx. destruct Hp as [Hf _]. nra.
Qed.
End Cheb.

(* H(c) = 1 / (sum_i f_i / (c + m_i)) - c : both Wiener bounds and both Hashin-Shtrikman bounds are
   values of this one function (c = 0, 2 min m, 2 max m, c -> oo) *)
Definition H (l : list (R * R)) (c : R) : R := / wsum (fun p => fst p * / (c + snd p)) l - c.

Lemma H_monotone l c d : Forall pos_pair l -> sumF l = 1 -> 0 <= c <= d -> H l c <= H l d.
Proof.
  intros Hl H1 [Hc Hcd]. unfold H.
  pose proof (chebyshev c d Hc Hcd l Hl) as Hch. unfold Sa, Sb, S1, Sab, ca, cb in Hch.
  unfold sumF in H1. rewrite H1 in Hch.
  set (A := wsum (fun p => fst p * / (c + snd p)) l) in *.
  set (B := wsum (fun p => fst p * / (d + snd p)) l) in *.
  set (K := wsum (fun p => fst p * / (c + snd p) * / (d + snd p)) l) in *.
  assert (E : A - B = (d - c) * K).
  { subst A B K. clear Hch H1. induction Hl as [|p l [Hf Hm] Hl IH]; rewrite ?wsum_cons, ?wsum_nil; [lra|].
    assert (/ (c + snd p) - / (d + snd p) = (d - c) * (/ (c + snd p) * / (d + snd p))) by (field; lra). nra. }
  assert (PA : 0 < A) by (apply winv_pos; unfold sumF; lra || assumption).
  assert (PB : 0 < B) by (apply winv_pos; unfold sumF; lra || assumption).
  assert (D1 : / B - / A = (A - B) * (/ A * / B)) by (field; lra).
  assert (P1 : 0 < / A * / B) by (apply Rmult_lt_0_compat; apply Rinv_0_lt_compat; assumption).
  assert (U : A * B * (/ A * / B) = 1) by (field; lra).
  assert (K1 : 1 <= K * (/ A * / B)).
  { rewrite <- U. apply Rmult_le_compat_r; lra. }
  assert (D2 : d - c <= / B - / A).
  { rewrite D1, E. rewrite Rmult_assoc. rewrite <- (Rmult_1_r (d - c)) at 1.
    apply Rmult_le_compat_l; lra. }
  lra.
Qed.

(* ---- the rules at the real instance, in terms of wsum ------------------------------------ *)
Lemma wienerUpperP_R fm : wienerUpperP Rops fm = wsum (fun p => fst p * snd p) fm.
Proof. reflexivity. Qed.
Lemma wienerLowerP_R fm : wienerLowerP Rops fm = 1 / wsum (fun p => fst p * (1 / snd p)) fm.
Proof. reflexivity. Qed.

Lemma wienerLower_H fm : wienerLowerP Rops fm = H fm 0.
Proof.
  rewrite wienerLowerP_R. unfold H.
  rewrite (wsum_ext (fun p => fst p * (1 / snd p)) (fun p => fst p * / (0 + snd p))).
  - lra.
  - apply Forall_forall. intros p _. rewrite Rplus_0_l. unfold Rdiv. rewrite Rmult_1_l. reflexivity.
Qed.

(* sum of the Hashin-Shtrikman terms *)
Lemma hsTerm_sum fm m0 : 0 < m0 -> Forall pos_pair fm ->
  wsum (hsTerm Rops m0) fm = 3 * m0 * (sumF fm - 3 * m0 * wsum (fun p => fst p * / (2 * m0 + snd p)) fm).
Proof.
  intros Hm Hl. unfold sumF. induction Hl as [|p l [Hf Hp] _ IH]; rewrite ?wsum_cons, ?wsum_nil; [lra|].
  rewrite IH. unfold hsTerm, three, two. Rnorm. field. lra.
Qed.

(* _hashinShtrikmanGeneral with reference mobility m0 is H(2 m0) *)
Lemma hs_closed_form fm m0 : 0 < m0 -> Forall pos_pair fm -> sumF fm = 1 ->
  hsGeneralP Rops fm m0 = H fm (2 * m0).
Proof.
  intros Hm Hl H1. unfold hsGeneralP, H.
  change (sumT Rops (map (hsTerm Rops m0) fm)) with (wsum (hsTerm Rops m0) fm).
  rewrite (hsTerm_sum fm m0 Hm Hl), H1.
  assert (Hs : 0 < wsum (fun p => fst p * / (2 * m0 + snd p)) fm) by (apply winv_pos; lra || assumption).
  set (s := wsum (fun p => fst p * / (2 * m0 + snd p)) fm) in *.
  unfold three. Rnorm.
  assert (D : 1 - 3 * m0 * (1 - 3 * m0 * s) / (3 * m0) = 3 * m0 * s) by (field; lra).
  rewrite D. field. split; lra.
Qed.

(* weighted AM-HM: (sum f a) (sum f / a) >= (sum f)^2, written for a = c + m *)
Lemma amhm_aux l c q : 0 <= c -> Forall pos_pair l -> 0 < q ->
  2 * sumF l <= wsum (fun p => fst p * (c + snd p)) l * / (c + q)
              + wsum (fun p => fst p * / (c + snd p)) l * (c + q).
Proof.
  intros Hc Hl Hq. unfold sumF. induction Hl as [|p l [Hf Hp] _ IH]; rewrite ?wsum_cons, ?wsum_nil; [lra|].
  assert (Hx : 2 <= (c + snd p) * / (c + q) + / (c + snd p) * (c + q)).
  { assert (0 < c + snd p) by lra. assert (0 < c + q) by lra.
    assert (E : (c + snd p) * / (c + q) + / (c + snd p) * (c + q) - 2
                = ((c + snd p) - (c + q))^2 * (/ (c + snd p) * / (c + q))) by (field; lra).
    assert (0 <= ((c + snd p) - (c + q))^2 * (/ (c + snd p) * / (c + q))).
    { apply Rmult_le_pos; [apply pow2_ge_0|]. apply Rlt_le, Rmult_lt_0_compat; apply Rinv_0_lt_compat; lra. }
    lra. }
  nra.
Qed.

Lemma amhm l c : 0 <= c -> Forall pos_pair l ->
  sumF l * sumF l <= wsum (fun p => fst p * (c + snd p)) l * wsum (fun p => fst p * / (c + snd p)) l.
Proof.
  intros Hc Hl. induction Hl as [|p l Hp Hl IH]; unfold sumF in *; rewrite ?wsum_cons, ?wsum_nil; [lra|].
  pose proof (amhm_aux l c (snd p) Hc Hl (proj2 Hp)) as Hx. unfold sumF in Hx.
  destruct Hp as [Hf Hp].
  assert (0 < c + snd p) by lra.
  assert (I : (c + snd p) * / (c + snd p) = 1) by (field; lra).
  set (A := wsum (fun p0 => fst p0 * (c + snd p0)) l) in *.
  set (B := wsum (fun p0 => fst p0 * / (c + snd p0)) l) in *.
  set (W := wsum fst l) in *.
  set (a := c + snd p) in *. set (ia := / a) in *.
  replace ((fst p * a + A) * (fst p * ia + B))
    with (fst p * fst p * (a * ia) + fst p * (A * ia + B * a) + A * B) by ring.
  rewrite I. nra.
Qed.

(* H(c) <= upper Wiener for every c >= 0 *)
Lemma H_le_wienerUpper l c : Forall pos_pair l -> sumF l = 1 -> 0 <= c -> H l c <= wienerUpperP Rops l.
Proof.
  intros Hl H1 Hc. rewrite wienerUpperP_R. unfold H.
  pose proof (amhm l c Hc Hl) as Ha. rewrite H1 in Ha.
  assert (PB : 0 < wsum (fun p => fst p * / (c + snd p)) l) by (apply winv_pos; lra || assumption).
  assert (E : wsum (fun p => fst p * (c + snd p)) l = c + wsum (fun p => fst p * snd p) l).
  { clear Ha PB. transitivity (c * sumF l + wsum (fun p => fst p * snd p) l); [|rewrite H1; lra].
    clear H1. unfold sumF. induction l as [|p l IH]; rewrite ?wsum_cons, ?wsum_nil; [lra|].
    rewrite IH by (inversion Hl; assumption). lra. }
  rewrite E in Ha.
  set (B := wsum (fun p => fst p * / (c + snd p)) l) in *.
  set (U := wsum (fun p => fst p * snd p) l) in *.
  assert (/ B <= c + U).
  { apply Rmult_le_reg_r with B; [assumption|]. rewrite Rinv_l by lra. lra. }
  lra.
Qed.

(* ---- maxima / minima along the phase axis ---------------------------------------------- *)
Lemma maxT_R a b : maxT Rops a b = Rmax a b.
Proof.
  unfold maxT. Rnorm. unfold Rmax. destruct (Rltb a b) eqn:E; Rbool; destruct (Rle_dec a b); lra.
Qed.
Lemma minT_R a b : minT Rops a b = Rmin a b.
Proof.
  unfold minT. Rnorm. unfold Rmin. destruct (Rltb b a) eqn:E; Rbool; destruct (Rle_dec a b); lra.
Qed.

Lemma amax_spec x l : In (amax Rops x l) (x :: l) /\ forall y, In y (x :: l) -> y <= amax Rops x l.
Proof.
  revert x; induction l as [|z l IH]; intros x; simpl amax.
  - split; [left; reflexivity|]. intros y [<-|[]]. lra.
  - destruct (IH (maxT Rops x z)) as [I1 I2]. rewrite maxT_R in *. split.
    + destruct I1 as [E|I1]; [|right; right; exact I1].
      rewrite <- E. unfold Rmax. destruct (Rle_dec x z); [right; left|left]; reflexivity.
    + intros y [<-|[<-|Hy]].
      * eapply Rle_trans; [apply (Rmax_l x z)|]. apply I2. left; reflexivity.
      * eapply Rle_trans; [apply (Rmax_r x z)|]. apply I2. left; reflexivity.
      * apply I2. right; exact Hy.
Qed.

Lemma amin_spec x l : In (amin Rops x l) (x :: l) /\ forall y, In y (x :: l) -> amin Rops x l <= y.
Proof.
  revert x; induction l as [|z l IH]; intros x; simpl amin.
  - split; [left; reflexivity|]. intros y [<-|[]]. lra.
  - destruct (IH (minT Rops x z)) as [I1 I2]. rewrite minT_R in *. split.
    + destruct I1 as [E|I1]; [|right; right; exact I1].
      rewrite <- E. unfold Rmin. destruct (Rle_dec x z); [left|right; left]; reflexivity.
    + intros y [<-|[<-|Hy]].
      * eapply Rle_trans; [|apply (Rmin_l x z)]. apply I2. left; reflexivity.
      * eapply Rle_trans; [|apply (Rmin_r x z)]. apply I2. left; reflexivity.
      * apply I2. right; exact Hy.
Qed.

Lemma maxOf_spec l : l <> [] -> In (maxOf Rops l) l /\ forall y, In y l -> y <= maxOf Rops l.
Proof. destruct l as [|x l]; [congruence|]. intros _. apply amax_spec. Qed.
Lemma minOf_spec l : l <> [] -> In (minOf Rops l) l /\ forall y, In y l -> minOf Rops l <= y.
Proof. destruct l as [|x l]; [congruence|]. intros _. apply amin_spec. Qed.

Lemma maxOf_perm l l' : Permutation l l' -> maxOf Rops l = maxOf Rops l'.
Proof.
  intros P. destruct l as [|x l].
  - apply Permutation_nil in P. subst. reflexivity.
  - assert (N : x :: l <> []) by discriminate.
    assert (N' : l' <> []). { intros ->. apply Permutation_sym, Permutation_nil in P. discriminate. }
    destruct (maxOf_spec _ N) as [I1 M1]. destruct (maxOf_spec _ N') as [I2 M2].
    apply Rle_antisym.
    + apply M2. eapply Permutation_in; eassumption.
    + apply M1. eapply Permutation_in; [apply Permutation_sym|]; eassumption.
Qed.
Lemma minOf_perm l l' : Permutation l l' -> minOf Rops l = minOf Rops l'.
Proof.
  intros P. destruct l as [|x l].
  - apply Permutation_nil in P. subst. reflexivity.
  - assert (N : x :: l <> []) by discriminate.
    assert (N' : l' <> []). { intros ->. apply Permutation_sym, Permutation_nil in P. discriminate. }
    destruct (minOf_spec _ N) as [I1 M1]. destruct (minOf_spec _ N') as [I2 M2].
    apply Rle_antisym.
    + apply M1. eapply Permutation_in; [apply Permutation_sym|]; eassumption.
    + apply M2. eapply Permutation_in; eassumption.
Qed.

(* smallest / largest phase mobility of a pair list *)
Definition minM (fm : list (R * R)) : R := minOf Rops (map snd fm).
Definition maxM (fm : list (R * R)) : R := maxOf Rops (map snd fm).

Lemma sumF_one_nonempty fm : sumF fm = 1 -> fm <> [].
Proof. intros H1 ->. unfold sumF in H1. rewrite wsum_nil in H1. lra. Qed.

Lemma minM_spec fm : fm <> [] -> Forall pos_pair fm ->
  0 < minM fm /\ (exists p, In p fm /\ snd p = minM fm) /\ Forall (fun p => minM fm <= snd p) fm.
Proof.
  intros N Hl. unfold minM.
  assert (N' : map snd fm <> []) by (destruct fm; [congruence|discriminate]).
  destruct (minOf_spec _ N') as [I M].
  apply in_map_iff in I. destruct I as (p & Ep & Ip).
  split; [|split].
  - rewrite <- Ep. rewrite Forall_forall in Hl. apply (Hl p Ip).
  - exists p. split; assumption.
  - apply Forall_forall. intros q Hq. apply M. apply in_map. exact Hq.
Qed.
Lemma maxM_spec fm : fm <> [] -> Forall pos_pair fm ->
  0 < maxM fm /\ (exists p, In p fm /\ snd p = maxM fm) /\ Forall (fun p => snd p <= maxM fm) fm.
Proof.
  intros N Hl. unfold maxM.
  assert (N' : map snd fm <> []) by (destruct fm; [congruence|discriminate]).
  destruct (maxOf_spec _ N') as [I M].
  apply in_map_iff in I. destruct I as (p & Ep & Ip).
  split; [|split].
  - rewrite <- Ep. rewrite Forall_forall in Hl. apply (Hl p Ip).
  - exists p. split; assumption.
  - apply Forall_forall. intros q Hq. apply M. apply in_map. exact Hq.
Qed.

Lemma Forall_and_pos {P : R * R -> Prop} fm : Forall pos_pair fm -> Forall P fm -> Forall (fun p => pos_pair p /\ P p) fm.
Proof. intros A B. apply Forall_forall. intros p Hp. rewrite Forall_forall in A, B. split; auto. Qed.

(* smallest mobility <= lower Wiener *)
Lemma min_le_wienerLower fm : Forall pos_pair fm -> sumF fm = 1 -> minM fm <= wienerLowerP Rops fm.
Proof.
  intros Hl H1. pose proof (sumF_one_nonempty fm H1) as N.
  destruct (minM_spec fm N Hl) as (Hpos & _ & Hmin).
  rewrite wienerLower_H. unfold H.
  assert (PB : 0 < wsum (fun p => fst p * / (0 + snd p)) fm) by (apply winv_pos; lra || assumption).
  assert (Hle : wsum (fun p => fst p * / (0 + snd p)) fm <= wsum (fun p => / minM fm * fst p) fm).
  { apply wsum_le. pose proof (Forall_and_pos fm Hl Hmin) as HH.
    eapply Forall_impl; [|exact HH]. intros p [[Hf Hp] Hm]. cbv beta.
    rewrite Rplus_0_l. rewrite (Rmult_comm (/ minM fm)). apply Rmult_le_compat_l; [assumption|].
    apply Rinv_le_contravar; assumption. }
  rewrite wsum_scal in Hle. fold (sumF fm) in Hle. rewrite H1, Rmult_1_r in Hle.
  set (B := wsum (fun p => fst p * / (0 + snd p)) fm) in *.
  assert (minM fm <= / B).
  { rewrite <- (Rinv_inv (minM fm)). apply Rinv_le_contravar; assumption. }
  lra.
Qed.

(* upper Wiener <= largest mobility *)
Lemma wienerUpper_le_max fm : Forall pos_pair fm -> sumF fm = 1 -> wienerUpperP Rops fm <= maxM fm.
Proof.
  intros Hl H1. pose proof (sumF_one_nonempty fm H1) as N.
  destruct (maxM_spec fm N Hl) as (Hpos & _ & Hmax).
  rewrite wienerUpperP_R.
  assert (Hle : wsum (fun p => fst p * snd p) fm <= wsum (fun p => maxM fm * fst p) fm).
  { apply wsum_le. pose proof (Forall_and_pos fm Hl Hmax) as HH.
    eapply Forall_impl; [|exact HH]. intros p [[Hf Hp] Hm]. cbv beta. nra. }
  rewrite wsum_scal in Hle. fold (sumF fm) in Hle. rewrite H1 in Hle. lra.
Qed.

Lemma hsLower_H fm : Forall pos_pair fm -> sumF fm = 1 -> hsLowerP Rops fm = H fm (2 * minM fm).
Proof.
  intros Hl H1. pose proof (sumF_one_nonempty fm H1) as N.
  destruct (minM_spec fm N Hl) as (Hpos & _). apply hs_closed_form; assumption.
Qed.
Lemma hsUpper_H fm : Forall pos_pair fm -> sumF fm = 1 -> hsUpperP Rops fm = H fm (2 * maxM fm).
Proof.
  intros Hl H1. pose proof (sumF_one_nonempty fm H1) as N.
  destruct (maxM_spec fm N Hl) as (Hpos & _). apply hs_closed_form; assumption.
Qed.

Lemma minM_le_maxM fm : fm <> [] -> Forall pos_pair fm -> minM fm <= maxM fm.
Proof.
  intros N Hl. destruct (minM_spec fm N Hl) as (_ & (p & Ip & Ep) & _).
  destruct (maxM_spec fm N Hl) as (_ & _ & Hmax). rewrite Forall_forall in Hmax.
  rewrite <- Ep. apply Hmax. exact Ip.
Qed.

(* min <= lower Wiener <= lower HS <= upper HS <= upper Wiener <= max *)
Lemma bounds_ordered fm : Forall pos_pair fm -> sumF fm = 1 ->
  minM fm <= wienerLowerP Rops fm /\
  wienerLowerP Rops fm <= hsLowerP Rops fm /\
  hsLowerP Rops fm <= hsUpperP Rops fm /\
  hsUpperP Rops fm <= wienerUpperP Rops fm /\
  wienerUpperP Rops fm <= maxM fm.
Proof.
  intros Hl H1. pose proof (sumF_one_nonempty fm H1) as N.
  destruct (minM_spec fm N Hl) as (Hmin & _). destruct (maxM_spec fm N Hl) as (Hmax & _).
  pose proof (minM_le_maxM fm N Hl) as Hmm.
  rewrite (hsLower_H fm Hl H1), (hsUpper_H fm Hl H1).
  repeat split.
  - apply min_le_wienerLower; assumption.
  - rewrite wienerLower_H. apply H_monotone; try assumption. lra.
  - apply H_monotone; try assumption. lra.
  - apply H_le_wienerUpper; try assumption. lra.
  - apply wienerUpper_le_max; assumption.
Qed.

(* ---- independence of the order in which the phases are listed --------------------------- *)
Lemma wienerUpperP_perm fm fm' : Permutation fm fm' -> wienerUpperP Rops fm = wienerUpperP Rops fm'.
Proof. intros P. rewrite !wienerUpperP_R. apply wsum_perm, P. Qed.
Lemma wienerLowerP_perm fm fm' : Permutation fm fm' -> wienerLowerP Rops fm = wienerLowerP Rops fm'.
Proof. intros P. rewrite !wienerLowerP_R. f_equal. apply wsum_perm, P. Qed.
Lemma hsGeneralP_perm fm fm' m0 : Permutation fm fm' -> hsGeneralP Rops fm m0 = hsGeneralP Rops fm' m0.
Proof.
  intros P. unfold hsGeneralP.
  change (sumT Rops (map (hsTerm Rops m0) fm)) with (wsum (hsTerm Rops m0) fm).
  change (sumT Rops (map (hsTerm Rops m0) fm')) with (wsum (hsTerm Rops m0) fm').
  rewrite (wsum_perm _ _ _ P). reflexivity.
Qed.
Lemma hsUpperP_perm fm fm' : Permutation fm fm' -> hsUpperP Rops fm = hsUpperP Rops fm'.
Proof.
  intros P. unfold hsUpperP. rewrite (maxOf_perm _ _ (Permutation_map snd P)). apply hsGeneralP_perm, P.
Qed.
Lemma hsLowerP_perm fm fm' : Permutation fm fm' -> hsLowerP Rops fm = hsLowerP Rops fm'.
Proof.
  intros P. unfold hsLowerP. rewrite (minOf_perm _ _ (Permutation_map snd P)). apply hsGeneralP_perm, P.
Qed.

(* pair form of the labyrinth rule *)
Definition labyrinthP (pw : R -> R) (fm : list (R * R)) : R :=
  wienerUpperP Rops (map (fun p => (pw (fst p), snd p)) fm).
Lemma labyrinthP_perm pw fm fm' : Permutation fm fm' -> labyrinthP pw fm = labyrinthP pw fm'.
Proof. intros P. apply wienerUpperP_perm, Permutation_map, P. Qed.

(* ---- a single phase ---------------------------------------------------------------------- *)
Lemma single_wienerUpper m : wienerUpperP Rops [(1, m)] = m.
Proof. rewrite wienerUpperP_R, wsum_cons, wsum_nil. simpl. lra. Qed.
Lemma single_wienerLower m : m <> 0 -> wienerLowerP Rops [(1, m)] = m.
Proof. intros Hm. rewrite wienerLowerP_R, wsum_cons, wsum_nil. simpl. field. exact Hm. Qed.
Lemma single_hsGeneral m : hsGeneralP Rops [(1, m)] m = m.
Proof.
  unfold hsGeneralP. change (sumT Rops (map (hsTerm Rops m) [(1, m)])) with (wsum (hsTerm Rops m) [(1, m)]).
  rewrite wsum_cons, wsum_nil.
  assert (E : hsTerm Rops m (1, m) = 0). { unfold hsTerm, three, two. Rnorm. simpl. unfold Rdiv. ring. }
  rewrite E. Rnorm. unfold Rdiv. ring.
Qed.
Lemma single_hsUpper m : hsUpperP Rops [(1, m)] = m.
Proof. unfold hsUpperP. simpl map. simpl maxOf. apply single_hsGeneral. Qed.
Lemma single_hsLower m : hsLowerP Rops [(1, m)] = m.
Proof. unfold hsLowerP. simpl map. simpl minOf. apply single_hsGeneral. Qed.
Lemma single_labyrinth pw m : pw 1 = 1 -> labyrinthP pw [(1, m)] = m.
Proof. intros E. unfold labyrinthP. simpl map. rewrite E. apply single_wienerUpper. Qed.

(* one phase carries the whole fraction, other phases are listed with fraction zero *)
Lemma wsum_zero_frac (g : R * R -> R) l : Forall (fun p => fst p = 0) l -> wsum (fun p => fst p * g p) l = 0.
Proof. induction 1 as [|p l Hp _ IH]; rewrite ?wsum_cons, ?wsum_nil; [lra|]. rewrite Hp, IH. lra. Qed.

Lemma wsum_app w l1 l2 : wsum w (l1 ++ l2) = wsum w l1 + wsum w l2.
Proof. unfold wsum. rewrite map_app. apply sumR_app. Qed.

Lemma H_whole_fraction l1 l2 m c : 0 <= c -> 0 < m ->
  Forall (fun p => fst p = 0) l1 -> Forall (fun p => fst p = 0) l2 ->
  H (l1 ++ (1, m) :: l2) c = m.
Proof.
  intros Hc Hm Z1 Z2. unfold H. rewrite wsum_app, wsum_cons.
  rewrite (wsum_zero_frac (fun p => / (c + snd p)) l1 Z1), (wsum_zero_frac (fun p => / (c + snd p)) l2 Z2).
  simpl. field. lra.
Qed.

(* ---- labyrinth --------------------------------------------------------------------------- *)
Lemma labyrinth_id fm : labyrinthP (fun f => f) fm = wienerUpperP Rops fm.
Proof.
  unfold labyrinthP. f_equal. rewrite <- (map_id fm) at 2. apply map_ext. intros [f m]. reflexivity.
Qed.

Lemma labyrinth_le pw fm : (forall f, 0 <= f <= 1 -> pw f <= f) ->
  Forall pos_pair fm -> Forall (fun p => fst p <= 1) fm ->
  labyrinthP pw fm <= wienerUpperP Rops fm.
Proof.
  intros Hpw Hl H1. unfold labyrinthP. rewrite !wienerUpperP_R. unfold wsum. rewrite map_map.
  change (wsum (fun p => pw (fst p) * snd p) fm <= wsum (fun p => fst p * snd p) fm).
  apply wsum_le. pose proof (Forall_and_pos fm Hl H1) as HH.
  eapply Forall_impl; [|exact HH]. intros p [[Hf Hm] Hle]. cbv beta.
  apply Rmult_le_compat_r; [lra|]. apply Hpw. lra.
Qed.

Lemma frac_le_sum fm : Forall pos_pair fm -> Forall (fun p => fst p <= sumF fm) fm.
Proof.
  induction 1 as [|p l [Hf Hm] Hl IH]; constructor; unfold sumF in *; rewrite wsum_cons.
  - pose proof (sumF_nonneg l Hl) as Hn. unfold sumF in Hn. lra.
  - eapply Forall_impl; [|exact IH]. intros q Hq. cbv beta in *. lra.
Qed.
Lemma frac_le_one fm : Forall pos_pair fm -> sumF fm = 1 -> Forall (fun p => fst p <= 1) fm.
Proof. intros Hl H1. rewrite <- H1. apply frac_le_sum, Hl. Qed.

(* np.power(f, n) on [0, 1] for a real exponent n: 0 ** n = 0 (n > 0), f ** n = exp (n ln f) *)
Definition powR (n f : R) : R := if Req_EM_T f 0 then 0 else Rpower f n.

Lemma powR_one f : 0 <= f -> powR 1 f = f.
Proof.
  intros Hf. unfold powR. destruct (Req_EM_T f 0) as [->|Hn]; [reflexivity|]. apply Rpower_1. lra.
Qed.

Lemma powR_le n f : 1 <= n -> 0 <= f <= 1 -> 0 <= powR n f <= f.
Proof.
  intros Hn [H0 H1]. unfold powR. destruct (Req_EM_T f 0) as [->|Hz]; [lra|].
  assert (Hf : 0 < f) by lra. split.
  - unfold Rpower. left. apply exp_pos.
  - rewrite <- (Rpower_1 f Hf) at 2. destruct (Req_dec f 1) as [->|Hne].
    + rewrite !Rpower_1 by lra. unfold Rpower. rewrite ln_1, Rmult_0_r, exp_0. lra.
    + destruct (Req_dec n 1) as [->|Hn1]; [lra|]. left.
      unfold Rpower. apply exp_increasing.
      assert (ln f < 0). { rewrite <- ln_1. apply ln_increasing; lra. }
      nra.
Qed.

(* integer exponent (executable instance of the oracle) *)
Lemma powT_le n f : (1 <= n)%nat -> 0 <= f <= 1 -> 0 <= powT Rops f n <= f.
Proof.
  intros Hn [H0 H1]. destruct n as [|n]; [lia|]. clear Hn. induction n as [|n IH].
  - simpl. Rnorm. lra.
  - change (powT Rops f (S (S n))) with (f * powT Rops f (S n)). nra.
Qed.

(* ---- columns: the substitution of undefined entries is the identity on defined ones ----- *)
Lemma subst_defined s m : 0 < m -> subst Rops s m = m.
Proof.
  intros Hm. unfold subst, neg1. Rnorm. destruct (Reqb m (0 - 1)) eqn:E; [|reflexivity]. Rbool. lra.
Qed.
Lemma map_subst_defined s col : Forall (fun m => 0 < m) col -> map (subst Rops s) col = col.
Proof. induction 1 as [|m l Hm _ IH]; [reflexivity|]. cbn [map]. rewrite subst_defined by assumption. f_equal. exact IH. Qed.

Lemma combine_pos fr col : Forall (fun f => 0 <= f) fr -> Forall (fun m => 0 < m) col ->
  Forall pos_pair (combine fr col).
Proof.
  intros Hf. revert col. induction Hf as [|f fr Hf _ IH]; intros col Hc; simpl; [constructor|].
  destruct Hc as [|m col Hm Hc]; constructor; [split; assumption|]. apply IH, Hc.
Qed.
Lemma combine_sumF (fr col : list R) : length fr = length col -> sumF (combine fr col) = sumR fr.
Proof.
  revert col. induction fr as [|f fr IH]; intros [|m col] HL; simpl in HL; try lia; [reflexivity|].
  simpl combine. unfold sumF in *. rewrite wsum_cons. simpl. rewrite IH by lia. reflexivity.
Qed.
Lemma combine_snd (fr col : list R) : length fr = length col -> map snd (combine fr col) = col.
Proof.
  revert col. induction fr as [|f fr IH]; intros [|m col] HL; simpl in HL; try lia; [reflexivity|].
  simpl. rewrite IH by lia. reflexivity.
Qed.

Lemma bounds_column tiny maxf fr col : length fr = length col ->
  Forall (fun f => 0 <= f) fr -> Forall (fun m => 0 < m) col -> sumR fr = 1 ->
  minOf Rops col <= wienerLowerC Rops maxf fr col /\
  wienerLowerC Rops maxf fr col <= hsLowerC Rops maxf fr col /\
  hsLowerC Rops maxf fr col <= hsUpperC Rops tiny fr col /\
  hsUpperC Rops tiny fr col <= wienerUpperC Rops tiny fr col /\
  wienerUpperC Rops tiny fr col <= maxOf Rops col.
Proof.
  intros HL Hf Hc H1. unfold wienerLowerC, hsLowerC, hsUpperC, wienerUpperC.
  rewrite !map_subst_defined by assumption.
  pose proof (bounds_ordered (combine fr col) (combine_pos fr col Hf Hc)) as B.
  rewrite (combine_sumF fr col HL) in B. specialize (B H1).
  unfold minM, maxM in B. rewrite (combine_snd fr col HL) in B. exact B.
Qed.

(* ---- the matrix form ----------------------------------------------------------------------- *)
Lemma nth_map_seq {A} (g : nat -> A) a e j d : (j < e)%nat -> nth j (map g (seq a e)) d = g (a + j)%nat.
Proof.
  revert a j; induction e as [|e IH]; intros a j Hj; [lia|].
  destruct j as [|j]; simpl; [f_equal; lia|]. rewrite IH by lia. f_equal. lia.
Qed.

Lemma onCols_nth (O : Ops) e f mob j d : (j < e)%nat -> nth j (onCols O e f mob) d = f (col O j mob).
Proof. intros Hj. unfold onCols. rewrite nth_map_seq by exact Hj. reflexivity. Qed.

Lemma applyRule_entry (O : Ops) tiny maxf r pw e mob fr j d : (j < e)%nat ->
  nth j (applyRule O tiny maxf r pw e mob fr) d = ruleC O tiny maxf r pw fr (col O j mob).
Proof. intros Hj. unfold applyRule. apply onCols_nth; exact Hj. Qed.

Lemma applyRule_length (O : Ops) tiny maxf r pw e mob fr : length (applyRule O tiny maxf r pw e mob fr) = e.
Proof. unfold applyRule, onCols. rewrite map_length, seq_length. reflexivity. Qed.

Lemma combine_map_r {A B C} (g : B -> C) (l1 : list A) (l2 : list B) :
  combine l1 (map g l2) = map (fun p => (fst p, g (snd p))) (combine l1 l2).
Proof. revert l2; induction l1 as [|a l1 IH]; intros [|b l2]; simpl; auto. rewrite IH. reflexivity. Qed.
Lemma combine_map_l {A B C} (g : A -> C) (l1 : list A) (l2 : list B) :
  combine (map g l1) l2 = map (fun p => (g (fst p), snd p)) (combine l1 l2).
Proof. revert l2; induction l1 as [|a l1 IH]; intros [|b l2]; simpl; auto. rewrite IH. reflexivity. Qed.

(* the code's labyrinth rule on a column is the pair form *)
Lemma labyrinthC_P tiny pw fr col :
  labyrinthC Rops tiny pw fr col = labyrinthP pw (combine fr (map (subst Rops tiny) col)).
Proof. unfold labyrinthC, wienerUpperC, labyrinthP. rewrite combine_map_l. reflexivity. Qed.

(* listing the phases (rows with their fractions) in another order does not change any rule,
   undefined entries included *)
Lemma ruleC_perm tiny maxf r pw fr col fr' col' :
  Permutation (combine fr col) (combine fr' col') ->
  ruleC Rops tiny maxf r pw fr col = ruleC Rops tiny maxf r pw fr' col'.
Proof.
  intros P. destruct r; simpl; unfold wienerUpperC, wienerLowerC, hsUpperC, hsLowerC;
    rewrite ?labyrinthC_P, !combine_map_r.
  - apply wienerUpperP_perm, Permutation_map, P.
  - apply wienerLowerP_perm, Permutation_map, P.
  - apply hsUpperP_perm, Permutation_map, P.
  - apply hsLowerP_perm, Permutation_map, P.
  - apply labyrinthP_perm, Permutation_map, P.
Qed.

Lemma col_perm j (fr : list R) mob fr' mob' :
  Permutation (combine fr mob) (combine fr' mob') ->
  Permutation (combine fr (col Rops j mob)) (combine fr' (col Rops j mob')).
Proof. intros P. unfold col. rewrite !combine_map_r. apply Permutation_map, P. Qed.

Lemma applyRule_length_R tiny maxf r pw e mob fr : @length R (applyRule Rops tiny maxf r pw e mob fr) = e.
Proof. exact (applyRule_length Rops tiny maxf r pw e mob fr). Qed.
Lemma applyRule_entry_R tiny maxf r pw e mob fr j : (j < e)%nat ->
  @nth R j (applyRule Rops tiny maxf r pw e mob fr) 0 = ruleC Rops tiny maxf r pw fr (col Rops j mob).
Proof. exact (applyRule_entry Rops tiny maxf r pw e mob fr j 0). Qed.

Lemma applyRule_perm tiny maxf r pw e mob fr mob' fr' :
  Permutation (combine fr mob) (combine fr' mob') ->
  applyRule Rops tiny maxf r pw e mob fr = applyRule Rops tiny maxf r pw e mob' fr'.
Proof.
  intros P. apply (nth_ext _ _ 0 0).
  - rewrite !applyRule_length_R. reflexivity.
  - intros j Hj. rewrite applyRule_length_R in Hj.
    rewrite !applyRule_entry_R by exact Hj. apply ruleC_perm, col_perm, P.
Qed.

(* ---- post-processing: addressing by phase name (any scalar instance) ----------------------- *)
Lemma find_name_spec a names k :
  find_name a names = Some k <->
  (k < length names /\ nth k names 0 = a /\ forall j, j < k -> nth j names 0 <> a)%nat.
Proof.
  revert k; induction names as [|n names IH]; intros k; simpl.
  - split; [discriminate|]. intros [Hk _]. lia.
  - destruct (Nat.eqb n a) eqn:E.
    + apply Nat.eqb_eq in E. split.
      * intros X; inversion X; subst. repeat split; try lia.
      * intros (H1 & H2 & H3). destruct k; [reflexivity|]. exfalso. apply (H3 0%nat); [lia|exact E].
    + apply Nat.eqb_neq in E. destruct (find_name a names) as [m|] eqn:F; simpl.
      * split.
        -- intros X; inversion X; subst. destruct (proj1 (IH m) eq_refl) as (H1 & H2 & H3).
           repeat split; try lia; auto. intros [|j] Hj; [exact E|]. apply H3. lia.
        -- intros (H1 & H2 & H3). destruct k; [contradiction|]. f_equal.
           assert (X : Some m = Some k); [|inversion X; reflexivity].
           apply IH. repeat split; try lia; auto. intros j Hj. apply (H3 (S j)). lia.
      * split; [discriminate|]. intros (H1 & H2 & H3). destruct k; [contradiction|].
        assert (X : None = Some k); [|discriminate]. apply IH.
        repeat split; try lia; auto. intros j Hj. apply (H3 (S j)). lia.
Qed.

Lemma find_name_none a names : find_name a names = None <-> ~ In a names.
Proof.
  induction names as [|n names IH]; simpl.
  - split; auto.
  - destruct (Nat.eqb n a) eqn:E.
    + apply Nat.eqb_eq in E. split; [discriminate|]. intros X. exfalso. apply X. left. exact E.
    + apply Nat.eqb_neq in E. destruct (find_name a names); simpl.
      * split; [discriminate|]. intros X. exfalso.
        assert (N : ~ In a names) by (intros Hin; apply X; right; exact Hin).
        apply IH in N. discriminate.
      * split; auto. intros _ [X|X]; [contradiction|]. apply (proj1 IH eq_refl X).
Qed.

Lemma existsb_name n ex : existsb (Nat.eqb n) ex = true <-> In n ex.
Proof.
  rewrite existsb_exists. split.
  - intros (x & Hx & E). apply Nat.eqb_eq in E. subst. exact Hx.
  - intros Hn. exists n. split; [exact Hn|apply Nat.eqb_refl].
Qed.

Section PostAny.
Variable O : Ops.
Notation t := (T O).

Lemma fillUndef_length src row : length (fillUndef O src row) = Nat.min (length src) (length row).
Proof. apply zipWith_length. Qed.

Lemma nth_fillUndef src row j d : (j < length src)%nat -> (j < length row)%nat ->
  nth j (fillUndef O src row) d = if eqb O (nth j row d) (neg1 O) then nth j src d else nth j row d.
Proof. intros H1 H2. unfold fillUndef. rewrite (nth_zipWith _ src row j d d d) by assumption. reflexivity. Qed.

(* 'exclude': exactly the composition sets of the named phases lose their fraction; nothing else
   changes *)
Lemma postExclude_fracs ex (d : mobData O) k : (k < length (d_phases d))%nat -> (k < length (d_fracs d))%nat ->
  nth k (d_fracs (postExclude O ex d)) (zero O) =
    if existsb (Nat.eqb (nth k (d_phases d) 0%nat)) ex then zero O else nth k (d_fracs d) (zero O).
Proof.
  intros H1 H2. unfold postExclude. cbn [d_fracs].
  rewrite (nth_zipWith _ (d_phases d) (d_fracs d) k (zero O) 0%nat (zero O)) by assumption. reflexivity.
Qed.
Lemma postExclude_length ex (d : mobData O) : length (d_phases d) = length (d_fracs d) ->
  length (d_fracs (postExclude O ex d)) = length (d_fracs d).
Proof. intros HL. unfold postExclude. cbn [d_fracs]. rewrite zipWith_length, HL. apply Nat.min_id. Qed.
Lemma postExclude_rest ex (d : mobData O) :
  d_mob (postExclude O ex d) = d_mob d /\ d_phases (postExclude O ex d) = d_phases d.
Proof. split; reflexivity. Qed.

(* 'predefined': the source row is the row of the first composition set NAMED a *)
Lemma postPredefined_stable a (d : mobData O) k : find_name a (d_phases d) = Some k -> (k < length (d_mob d))%nat ->
  d_mob (postPredefined O a d) = map (fillUndef O (nth k (d_mob d) [])) (d_mob d) /\
  d_fracs (postPredefined O a d) = d_fracs d /\ d_phases (postPredefined O a d) = d_phases d.
Proof.
  intros F Hk. unfold postPredefined. rewrite F.
  destruct (nth_error (d_mob d) k) as [src|] eqn:E.
  - rewrite (nth_error_nth _ _ [] E). repeat split; reflexivity.
  - apply nth_error_None in E. lia.
Qed.
Lemma postPredefined_absent a (d : mobData O) : ~ In a (d_phases d) -> postPredefined O a d = d.
Proof. intros N. unfold postPredefined. rewrite (proj2 (find_name_none a (d_phases d)) N). reflexivity. Qed.

Lemma postMajority_spec (d : mobData O) : (argmaxT O (d_fracs d) < length (d_mob d))%nat ->
  d_mob (postMajority O d) = map (fillUndef O (nth (argmaxT O (d_fracs d)) (d_mob d) [])) (d_mob d) /\
  d_fracs (postMajority O d) = d_fracs d /\ d_phases (postMajority O d) = d_phases d.
Proof.
  intros Hk. unfold postMajority.
  destruct (nth_error (d_mob d) (argmaxT O (d_fracs d))) as [src|] eqn:E.
  - rewrite (nth_error_nth _ _ [] E). repeat split; reflexivity.
  - apply nth_error_None in E. lia.
Qed.

(* entry (i, j) of a matrix whose rows were filled from [src] *)
Lemma filled_entry src (mob : list (list t)) i j e : (i < length mob)%nat -> (j < e)%nat ->
  length src = e -> Forall (fun row => length row = e) mob ->
  nth j (nth i (map (fillUndef O src) mob) []) (zero O) =
    if eqb O (nth j (nth i mob []) (zero O)) (neg1 O) then nth j src (zero O) else nth j (nth i mob []) (zero O).
Proof.
  intros Hi Hj Hs Hr.
  assert (E : nth i (map (fillUndef O src) mob) [] = fillUndef O src (nth i mob [])).
  { rewrite (nth_indep _ [] (fillUndef O src [])) by (rewrite map_length; exact Hi). apply map_nth. }
  rewrite E. rewrite Forall_forall in Hr. specialize (Hr (nth i mob []) (nth_In _ _ Hi)).
  apply nth_fillUndef; lia.
Qed.

(* ---- the hash table: results do not depend on the history of evaluations ----------------- *)
Variables tiny maxf : t.
Variable backend : nat -> mobData O.

Definition cache_ok (c : cache O) : Prop := forall k d, lookup O k c = Some d -> d = backend k.

Lemma fetch_ok k c : cache_ok c -> fst (fetch O backend k c) = backend k /\ cache_ok (snd (fetch O backend k c)).
Proof.
  intros Hc. unfold fetch. destruct (lookup O k c) as [d|] eqn:E; simpl.
  - split; [apply Hc, E|exact Hc].
  - split; [reflexivity|]. intros k' d'. simpl. destruct (Nat.eqb k k') eqn:K.
    + apply Nat.eqb_eq in K. subst. intros X; inversion X; reflexivity.
    + apply Hc.
Qed.

Lemma evalPoint_ok e o k c : cache_ok c ->
  fst (evalPoint O tiny maxf backend e o k c) = homogenize O tiny maxf e o (backend k) /\
  cache_ok (snd (evalPoint O tiny maxf backend e o k c)).
Proof.
  intros Hc. unfold evalPoint. destruct (fetch_ok k c Hc) as [F1 F2].
  destruct (fetch O backend k c) as [d c']. simpl in *. subst d. split; [reflexivity|exact F2].
Qed.

Lemma evalSeq_ok e l c : cache_ok c ->
  evalSeq O tiny maxf backend e l c = map (fun ok => homogenize O tiny maxf e (fst ok) (backend (snd ok))) l.
Proof.
  revert c; induction l as [|[o k] l IH]; intros c Hc; [reflexivity|].
  simpl evalSeq. destruct (evalPoint_ok e o k c Hc) as [E1 E2].
  destruct (evalPoint O tiny maxf backend e o k c) as [v c']. simpl in *. subst v.
  rewrite (IH c' E2). reflexivity.
Qed.

Lemma cache_ok_nil : cache_ok [].
Proof. intros k d X. discriminate. Qed.
End PostAny.

(* ---- 'majority': the source row is the row of the largest fraction (real instance) -------- *)
Lemma argmax_go_spec l : forall best bi i,
  (argmax_go Rops best bi i l = bi /\ Forall (fun x => x <= best) l) \/
  (exists j, (j < length l)%nat /\ argmax_go Rops best bi i l = (i + j)%nat /\ best < nth j l 0 /\
             Forall (fun x => x <= nth j l 0) l /\ forall j', (j' < j)%nat -> nth j' l 0 < nth j l 0).
Proof.
  induction l as [|x l IH]; intros best bi i.
  - left. split; [reflexivity|constructor].
  - cbn [argmax_go]. Rnorm. destruct (Rltb best x) eqn:E; Rbool.
    + destruct (IH x i (S i)) as [[R1 R2]|(j & J1 & J2 & J3 & J4 & J5)].
      * right. exists 0%nat. cbn [nth length]. repeat split; try lia; try lra; try assumption.
        -- constructor; [lra|exact R2].
      * right. exists (S j). cbn [nth length]. repeat split; try lia; try lra; try assumption.
        -- constructor; [lra|exact J4].
        -- intros [|j'] Hj'; [lra|]. apply J5. lia.
    + destruct (IH best bi (S i)) as [[R1 R2]|(j & J1 & J2 & J3 & J4 & J5)].
      * left. split; [exact R1|]. constructor; [lra|exact R2].
      * right. exists (S j). cbn [nth length]. repeat split; try lia; try lra; try assumption.
        -- constructor; [lra|exact J4].
        -- intros [|j'] Hj'; [lra|]. apply J5. lia.
Qed.

Lemma argmaxT_spec (l : list R) : l <> [] ->
  (argmaxT Rops l < length l)%nat /\
  (forall j, (j < length l)%nat -> nth j l 0 <= nth (argmaxT Rops l) l 0) /\
  (forall j, (j < argmaxT Rops l)%nat -> nth j l 0 < nth (argmaxT Rops l) l 0).
Proof.
  destruct l as [|x l]; [congruence|]. intros _. unfold argmaxT.
  destruct (argmax_go_spec l x 0%nat 1%nat) as [[R1 R2]|(j & J1 & J2 & J3 & J4 & J5)].
  - rewrite R1. cbn [nth length]. repeat split; try lia.
    intros [|j] Hj; [lra|]. rewrite Forall_forall in R2. apply R2, nth_In. cbn [length] in Hj. lia.
  - rewrite J2. change (1 + j)%nat with (S j). cbn [nth length]. repeat split; try lia.
    + intros [|j'] Hj'; [lra|]. rewrite Forall_forall in J4. apply J4, nth_In. cbn [length] in Hj'. lia.
    + intros [|j'] Hj'; [exact J3|]. apply J5. lia.
Qed.

(* ---- statements in the form used by Properties.v ------------------------------------------ *)
Lemma rulesP_perm pw fm fm' : Permutation fm fm' ->
  wienerLowerP Rops fm = wienerLowerP Rops fm' /\ hsLowerP Rops fm = hsLowerP Rops fm' /\
  hsUpperP Rops fm = hsUpperP Rops fm' /\ wienerUpperP Rops fm = wienerUpperP Rops fm' /\
  labyrinthP pw fm = labyrinthP pw fm'.
Proof.
  intros P. repeat split.
  - apply wienerLowerP_perm, P.
  - apply hsLowerP_perm, P.
  - apply hsUpperP_perm, P.
  - apply wienerUpperP_perm, P.
  - apply labyrinthP_perm, P.
Qed.

Lemma single_phase m pw : m <> 0 -> pw 1 = 1 ->
  wienerLowerP Rops [(1, m)] = m /\ hsLowerP Rops [(1, m)] = m /\ hsUpperP Rops [(1, m)] = m /\
  wienerUpperP Rops [(1, m)] = m /\ labyrinthP pw [(1, m)] = m.
Proof.
  intros Hm Hp. repeat split.
  - apply single_wienerLower, Hm.
  - apply single_hsLower.
  - apply single_hsUpper.
  - apply single_wienerUpper.
  - apply single_labyrinth, Hp.
Qed.

(* one phase has fraction 1, any number of other phases are listed with fraction 0 *)
Lemma whole_fraction l1 l2 m : Forall pos_pair l1 -> Forall pos_pair l2 -> 0 < m ->
  Forall (fun p => fst p = 0) l1 -> Forall (fun p => fst p = 0) l2 ->
  let fm := l1 ++ (1, m) :: l2 in
  wienerLowerP Rops fm = m /\ hsLowerP Rops fm = m /\ hsUpperP Rops fm = m /\ wienerUpperP Rops fm = m.
Proof.
  intros P1 P2 Hm Z1 Z2 fm.
  assert (Hl : Forall pos_pair fm).
  { apply Forall_app. split; [exact P1|]. constructor; [split; simpl; lra|exact P2]. }
  assert (H1 : sumF fm = 1).
  { assert (Z : forall l, Forall (fun p : R * R => fst p = 0) l -> wsum fst l = 0).
    { induction 1 as [|p l Hp _ IH]; rewrite ?wsum_cons, ?wsum_nil; lra. }
    unfold sumF, fm. rewrite wsum_app, wsum_cons, (Z l1 Z1), (Z l2 Z2). simpl. lra. }
  pose proof (sumF_one_nonempty fm H1) as N.
  destruct (minM_spec fm N Hl) as (Hmin & _). destruct (maxM_spec fm N Hl) as (Hmax & _).
  rewrite wienerLower_H, (hsLower_H fm Hl H1), (hsUpper_H fm Hl H1).
  subst fm. rewrite !H_whole_fraction by (assumption || lra).
  repeat split; try reflexivity.
  rewrite wienerUpperP_R, wsum_app, wsum_cons.
  rewrite (wsum_zero_frac snd l1 Z1), (wsum_zero_frac snd l2 Z2). simpl. lra.
Qed.

Lemma labyrinth_one_column tiny fr col : Forall (fun f => 0 <= f) fr ->
  labyrinthC Rops tiny (powR 1) fr col = wienerUpperC Rops tiny fr col.
Proof.
  intros Hf. unfold labyrinthC. f_equal. rewrite <- (map_id fr) at 2. apply map_ext_in.
  intros f Hin. rewrite Forall_forall in Hf. apply powR_one, Hf, Hin.
Qed.

Lemma labyrinth_le_column tiny pw fr col : (forall f, 0 <= f <= 1 -> pw f <= f) ->
  length fr = length col -> Forall (fun f => 0 <= f) fr -> Forall (fun m => 0 < m) col -> sumR fr = 1 ->
  labyrinthC Rops tiny pw fr col <= wienerUpperC Rops tiny fr col.
Proof.
  intros Hpw HL Hf Hc H1. rewrite labyrinthC_P. unfold wienerUpperC. rewrite map_subst_defined by assumption.
  pose proof (combine_pos fr col Hf Hc) as Hp.
  apply labyrinth_le; [exact Hpw|exact Hp|]. apply frac_le_one; [exact Hp|].
  rewrite combine_sumF by exact HL. exact H1.
Qed.

Lemma labyrinth_real_le_column tiny n fr col : 1 <= n ->
  length fr = length col -> Forall (fun f => 0 <= f) fr -> Forall (fun m => 0 < m) col -> sumR fr = 1 ->
  labyrinthC Rops tiny (powR n) fr col <= wienerUpperC Rops tiny fr col.
Proof. intros Hn. apply labyrinth_le_column. intros f Hf. apply powR_le; assumption. Qed.

Lemma labyrinth_nat_le_column tiny n fr col : (1 <= n)%nat ->
  length fr = length col -> Forall (fun f => 0 <= f) fr -> Forall (fun m => 0 < m) col -> sumR fr = 1 ->
  labyrinthC Rops tiny (fun f => powT Rops f n) fr col <= wienerUpperC Rops tiny fr col.
Proof. intros Hn. apply labyrinth_le_column. intros f Hf. apply powT_le; assumption. Qed.

Definition entry (O : Ops) (mob : list (list (T O))) (i j : nat) : T O := nth j (nth i mob []) (zero O).

Lemma predefined_by_name (O : Ops) a (d : mobData O) k i j e :
  (k < length (d_phases d))%nat -> nth k (d_phases d) 0%nat = a ->
  (forall j', (j' < k)%nat -> nth j' (d_phases d) 0%nat <> a) ->
  length (d_mob d) = length (d_phases d) -> Forall (fun row => length row = e) (d_mob d) ->
  (i < length (d_mob d))%nat -> (j < e)%nat ->
  entry O (d_mob (postPredefined O a d)) i j =
    (if eqb O (entry O (d_mob d) i j) (neg1 O) then entry O (d_mob d) k j else entry O (d_mob d) i j) /\
  d_fracs (postPredefined O a d) = d_fracs d.
Proof.
  intros Hk Ha Hfirst HL Hr Hi Hj.
  assert (F : find_name a (d_phases d) = Some k) by (apply find_name_spec; repeat split; assumption).
  destruct (postPredefined_stable O a d k F ltac:(lia)) as (E1 & E2 & _).
  split; [|exact E2]. unfold entry. rewrite E1. apply filled_entry with (e := e); try assumption.
  rewrite Forall_forall in Hr. apply Hr, nth_In. lia.
Qed.

Lemma majority_largest (d : mobData Rops) i j e :
  d_fracs d <> [] -> length (d_mob d) = length (d_fracs d) -> Forall (fun row => length row = e) (d_mob d) ->
  (i < length (d_mob d))%nat -> (j < e)%nat ->
  let k := argmaxT Rops (d_fracs d) in
  (forall i', (i' < length (d_fracs d))%nat -> nth i' (d_fracs d) 0 <= nth k (d_fracs d) 0) /\
  (forall i', (i' < k)%nat -> nth i' (d_fracs d) 0 < nth k (d_fracs d) 0) /\
  entry Rops (d_mob (postMajority Rops d)) i j =
    (if Reqb (entry Rops (d_mob d) i j) (-1) then entry Rops (d_mob d) k j else entry Rops (d_mob d) i j) /\
  d_fracs (postMajority Rops d) = d_fracs d.
Proof.
  intros N HL Hr Hi Hj k. destruct (argmaxT_spec (d_fracs d) N) as (A1 & A2 & A3). fold k in A1, A2, A3.
  split; [exact A2|]. split; [exact A3|].
  destruct (postMajority_spec Rops d ltac:(fold k; lia)) as (E1 & E2 & _). fold k in E1.
  split; [|exact E2]. unfold entry. rewrite E1.
  replace (-1) with (neg1 Rops) by (unfold neg1; Rnorm; lra).
  apply (filled_entry Rops) with (e := e); try assumption.
  rewrite Forall_forall in Hr. apply Hr, nth_In. lia.
Qed.

Lemma exclude_by_name (O : Ops) ex (d : mobData O) k :
  length (d_phases d) = length (d_fracs d) -> (k < length (d_phases d))%nat ->
  (In (nth k (d_phases d) 0%nat) ex -> nth k (d_fracs (postExclude O ex d)) (zero O) = zero O) /\
  (~ In (nth k (d_phases d) 0%nat) ex -> nth k (d_fracs (postExclude O ex d)) (zero O) = nth k (d_fracs d) (zero O)) /\
  length (d_fracs (postExclude O ex d)) = length (d_fracs d) /\
  d_mob (postExclude O ex d) = d_mob d.
Proof.
  intros HL Hk. pose proof (postExclude_fracs O ex d k Hk ltac:(lia)) as E.
  repeat split.
  - intros Hin. rewrite E. rewrite (proj2 (existsb_name _ ex) Hin). reflexivity.
  - intros Hn. rewrite E. destruct (existsb (Nat.eqb (nth k (d_phases d) 0%nat)) ex) eqn:X; [|reflexivity].
    apply existsb_name in X. contradiction.
  - apply postExclude_length, HL.
Qed.

Lemma eval_history_independent (O : Ops) tiny maxf backend e l :
  evalSeq O tiny maxf backend e l [] = map (fun ok => homogenize O tiny maxf e (fst ok) (backend (snd ok))) l.
Proof. apply evalSeq_ok, cache_ok_nil. Qed.

Lemma eval_twice_same (O : Ops) tiny maxf backend e hist o k :
  exists before v, evalSeq O tiny maxf backend e (hist ++ [(o, k); (o, k)]) [] = before ++ [v; v]
                   /\ v = homogenize O tiny maxf e o (backend k) /\ length before = length hist.
Proof.
  rewrite eval_history_independent, map_app. eexists. eexists. split; [reflexivity|].
  split; [reflexivity|apply map_length].
Qed.

(* ---- configuration layer: whatever is handed to the setters, the factor that reaches the
   labyrinth rule lies in [1, 2]; a setter changes only the option it names ------------------- *)
Lemma clampLab_range n : 1 <= clampLab Rops n <= 2.
Proof.
  unfold clampLab, two. Rnorm. destruct (Rltb n 1) eqn:E1; Rbool; [lra|].
  destruct (Rltb 2 n) eqn:E2; Rbool; lra.
Qed.
Lemma clampLab_id n : 1 <= n <= 2 -> clampLab Rops n = n.
Proof.
  intros [H1 H2]. unfold clampLab, two. Rnorm. destruct (Rltb n 1) eqn:E1; Rbool; [lra|].
  destruct (Rltb 2 n) eqn:E2; Rbool; [lra|reflexivity].
Qed.

Lemma applyOp_factor_range (c : config Rops) op : 1 <= c_factor c <= 2 -> 1 <= c_factor (applyOp Rops c op) <= 2.
Proof. intros H. destruct op; simpl; [exact H|apply clampLab_range|exact H]. Qed.

Lemma configure_factor_range (c0 : config Rops) ops : 1 <= c_factor c0 <= 2 -> 1 <= c_factor (configure Rops c0 ops) <= 2.
Proof.
  unfold configure. revert c0. induction ops as [|op ops IH]; intros c0 H; simpl; [exact H|].
  apply IH, applyOp_factor_range, H.
Qed.

Lemma configure_app (O : Ops) (c0 : config O) ops1 ops2 :
  configure O c0 (ops1 ++ ops2) = configure O (configure O c0 ops1) ops2.
Proof. unfold configure. apply fold_left_app. Qed.

(* the last call decides, the other two options are what they were before it *)
Lemma configure_last (O : Ops) (c0 : config O) ops op :
  let c := configure O c0 ops in
  configure O c0 (ops ++ [op]) =
    match op with
    | OpRule r => mkCfg r (c_factor c) (c_post c)
    | OpLab n => mkCfg (c_rule c) (clampLab O n) (c_post c)
    | OpPost p => mkCfg (c_rule c) (c_factor c) p
    end.
Proof. intros c. rewrite configure_app. subst c. destruct op; reflexivity. Qed.

Lemma config_labyrinth_le tiny (c0 : config Rops) ops fr col : 1 <= c_factor c0 <= 2 ->
  length fr = length col -> Forall (fun f => 0 <= f) fr -> Forall (fun m => 0 < m) col -> sumR fr = 1 ->
  labyrinthC Rops tiny (powR (c_factor (configure Rops c0 ops))) fr col <= wienerUpperC Rops tiny fr col.
Proof.
  intros H0. apply labyrinth_real_le_column. apply (configure_factor_range c0 ops H0).
Qed.
