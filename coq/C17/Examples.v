(* C17 - non-vacuity examples and refutation witnesses. *)
From Coq Require Import Reals QArith List ZArith Lra Lia Permutation.
Require Import Kawin.Common.Ops Kawin.Common.Vec Kawin.Common.VecLemmas Kawin.C17.Model Kawin.C17.Proofs Kawin.C17.Hom.
Import ListNotations.

(* ---- the hypotheses of the bound theorems are satisfiable: three phases, distinct mobilities - *)
Open Scope R_scope.
Example pos_example : Forall pos_pair [(1/4, 2); (1/2, 1); (1/4, 8)] /\ sumF [(1/4, 2); (1/2, 1); (1/4, 8)] = 1.
Proof.
  split.
  - repeat constructor; simpl; lra.
  - unfold sumF, wsum. simpl. Rnorm. lra.
Qed.
Example perm_example : Permutation [(1/4, 2); (1/2, 1); (1/4, 8)] [(1/2, 1); (1/4, 8); (1/4, 2)].
Proof. apply Permutation_cons_app with (l1 := [(1/2, 1); (1/4, 8)]) (l2 := []). apply Permutation_refl. Qed.
Close Scope R_scope.

(* ---- executable instance: the same model on exact rationals ------------------------------ *)
Open Scope Q_scope.
Definition qtiny : Q := 1 # 1000000000000.
Definition qmaxf : Q := 1000000000000.
Definition exF : list Q := [1#4; 1#2; 1#4].
Definition exM : list (list Q) := [[2; 4]; [1; 4]; [8; 4]].      (* 3 phases x 2 elements *)

(* column 0 = mobilities 2, 1, 8: the chain 1 < 32/21 < 118/61 < 688/263 < 3 < 8 is strict;
   column 1 = equal mobilities: every rule returns 4 *)
Example rules_example :
  map (fun r => applyRule Qops qtiny qmaxf r (fun f => f) 2 exM exF) [WienerLower; HashinLower; HashinUpper; WienerUpper; Labyrinth]
  = [[32#21; 4]; [118#61; 4]; [688#263; 4]; [3; 4]; [3; 4]].
Proof. vm_compute. reflexivity. Qed.

(* the hypotheses of C17_exec_is_model / C17_bounds_ordered_exec are met by column 0 *)
Example exec_example :
  Forall pos_pairQ [(1#4, 2); (1#2, 1); (1#4, 8)] /\ sumT Qops (map fst [(1#4, 2); (1#2, 1); (1#4, 8)]) == 1.
Proof.
  split; [|vm_compute; reflexivity].
  repeat (constructor; [split; vm_compute; first [reflexivity | discriminate]|]). constructor.
Qed.

(* labyrinth with factor 2 is strictly below upper Wiener *)
Example labyrinth_example : applyRule Qops qtiny qmaxf Labyrinth (fun f => powT Qops f 2) 2 exM exF = [7#8; 3#2].
Proof. vm_compute. reflexivity. Qed.

(* with an undefined entry the "bounds" are not ordered (lower Wiener treats the phase as infinitely
   mobile, upper Wiener as immobile): the ordering theorems are stated for defined mobilities only *)
Example undefined_not_ordered :
  let lo := wienerLowerC Qops qmaxf [1#2; 1#2] [2; -1] in
  let up := wienerUpperC Qops qtiny [1#2; 1#2] [2; -1] in
  Qlt up (21#20) /\ Qlt (39#10) lo.
Proof. vm_compute. split; reflexivity. Qed.

(* ---- post-processing: database phases 0 (ALPHA), 1 (BETA), 2 (GAMMA); at this point BETA and GAMMA
   are stable (in that order), GAMMA has no mobility model ---------------------------------------- *)
Definition exD : mobData Qops := @mkData Qops [1%nat; 2%nat] [[2; 4]; [-1; -1]] [3#10; 7#10].

Example predefined_example : d_mob (postPredefined Qops 1 exD) = [[2; 4]; [2; 4]].
Proof. vm_compute. reflexivity. Qed.
Example predefined_absent_example : postPredefined Qops 0 exD = exD.
Proof. vm_compute. reflexivity. Qed.
Example exclude_example : d_fracs (postExclude Qops [1%nat] exD) = [0; 7#10] /\ d_fracs (postExclude Qops [0%nat] exD) = [3#10; 7#10].
Proof. vm_compute. split; reflexivity. Qed.
Example majority_example : d_mob (postMajority Qops (@mkData Qops [1%nat; 2%nat] [[-1; -1]; [2; 4]] [3#10; 7#10])) = [[2; 4]; [2; 4]].
Proof. vm_compute. reflexivity. Qed.
(* np.argmax takes the first of two equal fractions *)
Example argmax_tie : argmaxT Qops [1#4; 1#2; 1#2] = 1%nat.
Proof. vm_compute. reflexivity. Qed.

(* ---- kawin BEFORE the repair ("fix: mobility post-processing addresses phases by name ..."):
   the index of the named phase in the DATABASE phase list was applied to the arrays of the STABLE
   phases, and the arrays that were modified in place were the cached ones ---------------------- *)
Module Unrepaired.
Section U.
Variable O : Ops.
Notation t := (T O).

(* alpha_idx = therm.phases.index(alpha); alpha_mob = mobility[alpha_idx]: None = IndexError *)
Definition postPredefinedPos (db : list nat) (a : nat) (d : mobData O) : option (mobData O) :=
  match find_name a db with
  | Some k =>
      match nth_error (d_mob d) k with
      | Some src => Some (mkData (d_phases d) (map (fillUndef O src) (d_mob d)) (d_fracs d))
      | None => None
      end
  | None => None
  end.

Fixpoint set_zero (l : list t) (k : nat) : option (list t) :=
  match l, k with
  | [], _ => None
  | _ :: r, 0%nat => Some (zero O :: r)
  | x :: r, S k' => option_map (cons x) (set_zero r k')
  end.

(* for p in [therm.phases.index(q) for q in excluded]: phaseFracs[p] = 0 *)
Fixpoint excludePos (db : list nat) (ex : list nat) (fr : list t) : option (list t) :=
  match ex with
  | [] => Some fr
  | a :: r =>
      match find_name a db with
      | Some k => match set_zero fr k with Some fr' => excludePos db r fr' | None => None end
      | None => None
      end
  end.
Definition postExcludePos (db ex : list nat) (d : mobData O) : option (mobData O) :=
  option_map (fun fr => mkData (d_phases d) (d_mob d) fr) (excludePos db ex (d_fracs d)).

(* the hash table keeps the arrays the post-processing wrote into *)
Variables tiny maxf : t.
Variable backend : nat -> mobData O.
Definition evalPointInPlace (e : nat) (o : opts O) (k : nat) (c : cache O) : list t * cache O :=
  let (d, c') := fetch O backend k c in
  let d' := postprocess O (o_post o) d in
  (applyRule O tiny maxf (o_rule o) (o_pw o) e (d_mob d') (d_fracs d'), (k, d') :: c').
Fixpoint evalSeqInPlace (e : nat) (l : list (opts O * nat)) (c : cache O) : list (list t) :=
  match l with
  | [] => []
  | (o, k) :: r => let (v, c') := evalPointInPlace e o k c in v :: evalSeqInPlace e r c'
  end.
End U.
End Unrepaired.

Definition exDB : list nat := [0%nat; 1%nat; 2%nat].

(* 'predefined BETA': BETA is number 1 in the database, row 1 of the stable arrays is GAMMA (undefined):
   nothing is filled in, upper Wiener ignores GAMMA instead of giving it BETA's mobility *)
Example predefined_by_name_refuted :
  exists d', Unrepaired.postPredefinedPos Qops exDB 1 exD = Some d' /\
             d_mob d' <> d_mob (postPredefined Qops 1 exD) /\
             applyRule Qops qtiny qmaxf WienerUpper (fun f => f) 2 (d_mob d') (d_fracs d')
               <> homogenize Qops qtiny qmaxf 2 (@mkOpts Qops WienerUpper (PPredefined 1) (fun f => f)) exD.
Proof. eexists. split; [vm_compute; reflexivity|]. split; vm_compute; discriminate. Qed.

(* a single-phase region of BETA: database position 1 does not exist among the stable phases *)
Example predefined_single_phase_refuted :
  Unrepaired.postPredefinedPos Qops exDB 1 (@mkData Qops [1%nat] [[2; 4]] [1]) = None /\
  Unrepaired.postExcludePos Qops exDB [2%nat] (@mkData Qops [1%nat] [[2; 4]] [1]) = None.
Proof. vm_compute. split; reflexivity. Qed.

(* 'exclude BETA' zeroes GAMMA's fraction *)
Example exclude_by_name_refuted :
  option_map (@d_fracs Qops) (Unrepaired.postExcludePos Qops exDB [1%nat] (@mkData Qops [1%nat; 2%nat] [[2; 4]; [8; 16]] [3#10; 7#10]))
    = Some [3#10; 0] /\
  d_fracs (postExclude Qops [1%nat] (@mkData Qops [1%nat; 2%nat] [[2; 4]; [8; 16]] [3#10; 7#10])) = [0; 7#10].
Proof. vm_compute. split; reflexivity. Qed.

(* the hash table: 'exclude' followed by no post-processing at the same point *)
Definition exBackend (k : nat) : mobData Qops := @mkData Qops [1%nat; 2%nat] [[2; 4]; [8; 16]] [3#10; 7#10].
Definition exHist : list (opts Qops * nat) :=
  [(@mkOpts Qops WienerUpper (PExclude [2%nat]) (fun f => f), 0%nat); (@mkOpts Qops WienerUpper PNone (fun f => f), 0%nat)].
Example history_independent_refuted :
  Unrepaired.evalSeqInPlace Qops qtiny qmaxf exBackend 2 exHist [] = [[3#5; 6#5]; [3#5; 6#5]] /\
  evalSeq Qops qtiny qmaxf exBackend 2 exHist [] = [[3#5; 6#5]; [31#5; 62#5]].
Proof. vm_compute. split; reflexivity. Qed.

(* ---- configuration layer -------------------------------------------------------------------- *)
(* the setters clamp: 1/2 -> 1, 3 -> 2, 3/2 stays; rule and post-processing survive a factor change *)
Example config_example :
  let c0 := @mkCfg Qops WienerUpper 1 PNone in
  map (fun n => c_factor (configure Qops c0 [OpRule Labyrinth; @OpLab Qops n])) [1#2; 3; 3#2; 0; -1] = [1; 2; 3#2; 1; 1] /\
  c_rule (configure Qops c0 [OpRule Labyrinth; OpPost PMajority; @OpLab Qops (1#2)]) = Labyrinth /\
  c_post (configure Qops c0 [OpRule Labyrinth; OpPost PMajority; @OpLab Qops (1#2)]) = PMajority.
Proof. vm_compute. repeat split; reflexivity. Qed.

(* the hypothesis on the constructor argument of C17_config_factor_in_range / C17_config_labyrinth_le
   is needed: the constructor stores labyrinthFactor as given, and with 1/2 the labyrinth rule
   (f ** (1/2) at f = 1/4 is 1/2) exceeds upper Wiener.  This is what kawin does for
   HomogenizationParameters('lab', labyrinthFactor=0.5) (recorded finding, fixes/C17-ctor-labyrinth-clamp.patch) *)
Example ctor_factor_unclamped_refuted :
  let c0 := @mkCfg Qops Labyrinth (1#2) PNone in
  c_factor (configure Qops c0 [OpRule Labyrinth]) = 1#2 /\
  Qlt (wienerUpperC Qops qtiny [1#4; 3#4] [4; 1])
      (labyrinthC Qops qtiny (fun f => if Qeq_bool f (1#4) then 1#2 else f) [1#4; 3#4] [4; 1]).
Proof. vm_compute. split; reflexivity. Qed.
