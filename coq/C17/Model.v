(* C17 - faithful model of the homogenisation rules and the mobility post-processing of
   kawin/diffusion/HomogenizationParameters.py:
     wienerUpper (9-24), wienerLower (26-41), labyrinth (43-59), _hashinShtrikmanGeneral (61-81),
     hashinShtrikmanUpper / Lower (83-115), the four _postProcess* functions (117-170),
     computeHomogenizationFunction (333-375)
   and of the cache protocol of kawin/diffusion/DiffusionParameters.py
     (HashTable.retrieveFromHashTable / addToHashTable, _computeSingleMobility 489-537).
   Executable definitions only (no proofs), polymorphic in the scalar record.

   Arrays: [mob] is the (p, e) mobility matrix as a list of p rows (one per STABLE phase) of e
   entries, [fr] the p phase fractions.  The rules act column by column (np.sum(..., axis=0)). *)
From Coq Require Import List Bool ZArith Arith.
Require Import Kawin.Common.Ops Kawin.Common.Vec.
Import ListNotations.

Section C17.
Variable O : Ops.
Notation t := (T O).

(* np.finfo(np.float64).tiny and .max: float devices standing for "mobility 0" / "mobility oo" *)
Variable tiny maxf : t.

Definition neg1 : t := sub O (zero O) (one O).
Definition two : t := ofZ O 2.
Definition three : t := ofZ O 3.

(* np.where(mobility != -1, mobility, s) *)
Definition subst (s m : t) : t := if eqb O m neg1 then s else m.

(* ---- one element (one column): lists of (fraction, mobility) ------------------------- *)
(* np.sum(phaseFracs[:,None] * mob, axis=0) *)
Definition wienerUpperP (fm : list (t * t)) : t :=
  sumT O (map (fun p => mul O (fst p) (snd p)) fm).

(* 1 / np.sum(phaseFracs[:,None] * (1/mob), axis=0) *)
Definition wienerLowerP (fm : list (t * t)) : t :=
  dvd O (one O) (sumT O (map (fun p => mul O (fst p) (dvd O (one O) (snd p))) fm)).

(* Ak = phaseFracs[:,None] * (mob - m0) * (3*m0) / (2*m0 + mob) ; Ak = np.sum(Ak, axis=0)
   avg = m0 + Ak / (1 - Ak / (3*m0)) *)
Definition hsTerm (m0 : t) (p : t * t) : t :=
  dvd O (mul O (mul O (fst p) (sub O (snd p) m0)) (mul O three m0))
        (add O (mul O two m0) (snd p)).
Definition hsGeneralP (fm : list (t * t)) (m0 : t) : t :=
  let Ak := sumT O (map (hsTerm m0) fm) in
  add O m0 (dvd O Ak (sub O (one O) (dvd O Ak (mul O three m0)))).

(* np.amax / np.amin along the phase axis (p >= 1; numpy raises on an empty axis) *)
Definition maxOf (l : list t) : t := match l with [] => zero O | x :: r => amax O x r end.
Definition minOf (l : list t) : t := match l with [] => zero O | x :: r => amin O x r end.

Definition hsUpperP (fm : list (t * t)) : t := hsGeneralP fm (maxOf (map snd fm)).
Definition hsLowerP (fm : list (t * t)) : t := hsGeneralP fm (minOf (map snd fm)).

(* ---- one column of the matrix, with the substitution of undefined (-1) entries ------- *)
Definition wienerUpperC (fr col : list t) : t := wienerUpperP (combine fr (map (subst tiny) col)).
Definition wienerLowerC (fr col : list t) : t := wienerLowerP (combine fr (map (subst maxf) col)).
Definition hsUpperC (fr col : list t) : t := hsUpperP (combine fr (map (subst tiny) col)).
Definition hsLowerC (fr col : list t) : t := hsLowerP (combine fr (map (subst maxf) col)).
(* labyrinth: np.sum(np.power(phaseFracs[:,None], n) * mob, axis=0).  np.power(., n) for a real
   exponent is not a field operation: it enters as the function [pw] (an oracle; for integer n the
   executable instance is [fun f => powT f n]).  The rule is upper Wiener on the powered fractions. *)
Definition labyrinthC (pw : t -> t) (fr col : list t) : t := wienerUpperC (map pw fr) col.

(* ---- the (p, e) matrix ----------------------------------------------------------------- *)
Definition col (j : nat) (mob : list (list t)) : list t := map (fun row => nth j row (zero O)) mob.
Definition onCols (e : nat) (f : list t -> t) (mob : list (list t)) : list t :=
  map (fun j => f (col j mob)) (seq 0 e).

Inductive rule := WienerUpper | WienerLower | HashinUpper | HashinLower | Labyrinth.

(* one rule on one column *)
Definition ruleC (r : rule) (pw : t -> t) (fr col : list t) : t :=
  match r with
  | WienerUpper => wienerUpperC fr col
  | WienerLower => wienerLowerC fr col
  | HashinUpper => hsUpperC fr col
  | HashinLower => hsLowerC fr col
  | Labyrinth => labyrinthC pw fr col
  end.

(* homogenizationFunction(mob, phase_fracs, labyrinth_factor = n); e = len(therm.elements) - 1 *)
Definition applyRule (r : rule) (pw : t -> t) (e : nat) (mob : list (list t)) (fr : list t) : list t :=
  onCols e (ruleC r pw fr) mob.

(* ---- post-processing ------------------------------------------------------------------- *)
(* What _computeSingleMobility returns: names of the STABLE phases (one per composition set), the
   mobility rows and the phase fractions, all in the order of the composition sets. Phase names are
   numbered (nat). *)
Record mobData := mkData { d_phases : list nat; d_mob : list (list t); d_fracs : list t }.

(* position of the first composition set of phase [a] *)
Fixpoint find_name (a : nat) (names : list nat) : option nat :=
  match names with
  | [] => None
  | n :: r => if Nat.eqb n a then Some 0 else option_map S (find_name a r)
  end.

(* for i in range(e): mobility[:,i][mobility[:,i] == -1] = src[i]   (one row) *)
Definition fillUndef (src row : list t) : list t :=
  zipWith (fun s m => if eqb O m neg1 then s else m) src row.

(* 'predefined': undefined entries take the mobility of the NAMED phase [a]; when that phase is
   not among the stable phases at this point nothing is changed *)
Definition postPredefined (a : nat) (d : mobData) : mobData :=
  match find_name a (d_phases d) with
  | Some k =>
      match nth_error (d_mob d) k with
      | Some src => mkData (d_phases d) (map (fillUndef src) (d_mob d)) (d_fracs d)
      | None => d
      end
  | None => d
  end.

(* np.argmax: index of the first maximum *)
Fixpoint argmax_go (best : t) (bi i : nat) (l : list t) : nat :=
  match l with
  | [] => bi
  | x :: r => if ltb O best x then argmax_go x i (S i) r else argmax_go best bi (S i) r
  end.
Definition argmaxT (l : list t) : nat := match l with [] => 0 | x :: r => argmax_go x 0 1 r end.

(* 'majority': undefined entries take the mobility of the phase with the largest fraction *)
Definition postMajority (d : mobData) : mobData :=
  match nth_error (d_mob d) (argmaxT (d_fracs d)) with
  | Some src => mkData (d_phases d) (map (fillUndef src) (d_mob d)) (d_fracs d)
  | None => d
  end.

(* 'exclude': the fraction of every composition set of a NAMED phase becomes 0 *)
Definition postExclude (ex : list nat) (d : mobData) : mobData :=
  mkData (d_phases d) (d_mob d)
         (zipWith (fun n f => if existsb (Nat.eqb n) ex then zero O else f) (d_phases d) (d_fracs d)).

Inductive post := PNone | PPredefined (a : nat) | PMajority | PExclude (ex : list nat).

Definition postprocess (p : post) (d : mobData) : mobData :=
  match p with
  | PNone => d
  | PPredefined a => postPredefined a d
  | PMajority => postMajority d
  | PExclude ex => postExclude ex d
  end.

(* ---- computeHomogenizationFunction at one point, with the hash table ------------------ *)
Record opts := mkOpts { o_rule : rule; o_post : post; o_pw : t -> t }.

Definition homogenize (e : nat) (o : opts) (d : mobData) : list t :=
  let d' := postprocess (o_post o) d in
  applyRule (o_rule o) (o_pw o) e (d_mob d') (d_fracs d').

(* the equilibrium + mobility computation (pycalphad) is an oracle: point key -> data *)
Variable backend : nat -> mobData.

Definition cache := list (nat * mobData).
Fixpoint lookup (k : nat) (c : cache) : option mobData :=
  match c with
  | [] => None
  | (k', d) :: r => if Nat.eqb k' k then Some d else lookup k r
  end.

(* _computeSingleMobility: retrieve, else compute and store.  The post-processing works on copies,
   so what is stored is what the backend returned. *)
Definition fetch (k : nat) (c : cache) : mobData * cache :=
  match lookup k c with
  | Some d => (d, c)
  | None => let d := backend k in (d, (k, d) :: c)
  end.

Definition evalPoint (e : nat) (o : opts) (k : nat) (c : cache) : list t * cache :=
  let (d, c') := fetch k c in (homogenize e o d, c').

(* a history of evaluations (options may change between calls; the hash table persists) *)
Fixpoint evalSeq (e : nat) (l : list (opts * nat)) (c : cache) : list (list t) :=
  match l with
  | [] => []
  | (o, k) :: r => let (v, c') := evalPoint e o k c in v :: evalSeq e r c'
  end.

(* ---- configuration: HomogenizationParameters.__init__ / setHomogenizationFunction /
   setLabyrinthFactor / setPostProcessFunction and the HomogenizationModel methods that forward to them
   (setMobilityFunction, setLabyrinthFactor, setMobilityPostProcessFunction) ------------------------- *)
Record config := mkCfg { c_rule : rule; c_factor : t; c_post : post }.

(* np.clip(n, 1, 2) *)
Definition clampLab (n : t) : t :=
  if ltb O n (one O) then one O else if ltb O two n then two else n.

(* one call of a setter, on the parameter object or through the model (the model methods forward) *)
Inductive cop := OpRule (r : rule) | OpLab (n : t) | OpPost (p : post).

Definition applyOp (c : config) (op : cop) : config :=
  match op with
  | OpRule r => mkCfg r (c_factor c) (c_post c)
  | OpLab n => mkCfg (c_rule c) (clampLab n) (c_post c)
  | OpPost p => mkCfg (c_rule c) (c_factor c) p
  end.

(* the constructor stores its three arguments (labyrinthFactor as given: "Must be between 1 and 2") *)
Definition configure (c0 : config) (ops : list cop) : config := fold_left applyOp ops c0.

(* what computeHomogenizationFunction then evaluates at a point with data d; the power of the
   labyrinth rule is the oracle [pwr] at the configured factor *)
Definition homogenizeCfg (e : nat) (pwr : t -> t -> t) (c : config) (d : mobData) : list t :=
  homogenize e (mkOpts (c_rule c) (c_post c) (pwr (c_factor c))) d.

End C17.

Arguments mkData {O} _ _ _.
Arguments d_phases {O} _.
Arguments d_mob {O} _.
Arguments d_fracs {O} _.
Arguments mkOpts {O} _ _ _.
Arguments o_rule {O} _.
Arguments o_post {O} _.
Arguments o_pw {O} _.
Arguments mkCfg {O} _ _ _.
Arguments c_rule {O} _.
Arguments c_factor {O} _.
Arguments c_post {O} _.
Arguments OpRule {O} _.
Arguments OpLab {O} _.
Arguments OpPost {O} _.
