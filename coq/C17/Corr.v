(* C17 - correspondence driver: evaluates the model on an exact-rational instance and compares with
   the outputs the implementation produced for the same inputs (harness side; no theorem depends on
   this file).  Only verdicts are printed.

   The substituted constants np.finfo(float64).tiny / .max make the exact values of the model
   1000 - 3000 bits long; Qred (binary gcd on [positive]) needs ~0.1 s per operation on such
   numbers.  The model is therefore executed on [BQops]: the same scalar record instantiated with the
   arbitrary-precision rationals of the Bignums library (machine-integer limbs).  [BQ_*_spec] below
   state that each operation of [BQops] is the corresponding operation of [Qops] up to Qeq. *)
From Coq Require Import QArith List ZArith Bool.
From Bignums Require Import BigQ.
Require Import Kawin.Common.Ops Kawin.Common.Vec Kawin.Common.Out Kawin.C17.Model.
Import ListNotations.

Definition bqltb (a b : bigQ) : bool := match BigQ.compare a b with Lt => true | _ => false end.
Definition bqleb (a b : bigQ) : bool := match BigQ.compare a b with Gt => false | _ => true end.

Definition BQops : Ops :=
  mkOps bigQ BigQ.zero BigQ.one BigQ.add_norm BigQ.sub_norm BigQ.mul_norm BigQ.div_norm
        bqltb bqleb BigQ.eq_bool (fun z => BigQ.Qz (BigZ.of_Z z)).

Local Notation "[[ x ]]" := (BigQ.to_Q x) (at level 0).
Lemma BQ_add_spec a b : ([[add BQops a b]] == add Qops [[a]] [[b]])%Q.
Proof. cbn [add BQops Qops]. rewrite Qred_correct. apply BigQ.spec_add_norm. Qed.
Lemma BQ_sub_spec a b : ([[sub BQops a b]] == sub Qops [[a]] [[b]])%Q.
Proof. cbn [sub BQops Qops]. rewrite Qred_correct. apply BigQ.spec_sub_norm. Qed.
Lemma BQ_mul_spec a b : ([[mul BQops a b]] == mul Qops [[a]] [[b]])%Q.
Proof. cbn [mul BQops Qops]. rewrite Qred_correct. apply BigQ.spec_mul_norm. Qed.
Lemma BQ_dvd_spec a b : ([[dvd BQops a b]] == dvd Qops [[a]] [[b]])%Q.
Proof. cbn [dvd BQops Qops]. rewrite Qred_correct. apply BigQ.spec_div_norm. Qed.
Lemma BQ_ltb_spec a b : ltb BQops a b = ltb Qops [[a]] [[b]].
Proof. cbn [ltb BQops Qops]. unfold bqltb, Qltb. rewrite BigQ.spec_compare. reflexivity. Qed.
Lemma BQ_leb_spec a b : leb BQops a b = leb Qops [[a]] [[b]].
Proof. cbn [leb BQops Qops]. unfold bqleb, Qleb. rewrite BigQ.spec_compare. reflexivity. Qed.
Lemma BQ_eqb_spec a b : eqb BQops a b = eqb Qops [[a]] [[b]].
Proof. cbn [eqb BQops Qops]. apply BigQ.spec_eq_bool. Qed.

(* transport of the harness' literals *)
Definition bq (q : Q) : bigQ := BigQ.of_Q q.
Definition bl (l : list Q) : list bigQ := map bq l.
Definition bll (l : list (list Q)) : list (list bigQ) := map bl l.

(* np.finfo(np.float64).tiny = 2^-1022 and .max = 2^1024 - 2^971 (the harness checks that numpy
   reports exactly these); parsing their 308-digit decimal literals costs 0.25 s each, so they are
   built here once *)
Definition tinyB : bigQ := Eval vm_compute in bq (1 # (2 ^ 1022)).
Definition maxfB : bigQ := Eval vm_compute in bq ((2 ^ 1024 - 2 ^ 971) # 1).

Open Scope bigQ_scope.

Definition babs (q : bigQ) : bigQ := if bqltb q 0 then BigQ.opp q else q.
(* |a - b| <= rt * scale + atol.  atol = 2^-1062 (4096 spacings of the subnormal binary64 numbers):
   when only undefined phases are left the results are multiples of tiny = 2^-1022 below the normal
   range (e.g. f^2 * tiny), where binary64 has an absolute, not a relative, precision *)
Definition atolB : bigQ := Eval vm_compute in bq (1 # (2 ^ 1062)).
Definition bcloseb (rt a b scale : bigQ) : bool := bqleb (babs (a - b)) (rt * scale + atolB).

Fixpoint bcmp_go (rt : bigQ) (k : nat) (impl model scale : list bigQ) : verdict :=
  match impl, model, scale with
  | a :: i', b :: m', s :: s' =>
      if bcloseb rt a b s then bcmp_go rt (S k) i' m' s' else Some (k, approx (Qred [[b]]))
  | [], [], _ => None
  | _, _, _ => Some (k, (0, 0, false)%Z)
  end.
Definition bcmpl (rt : bigQ) (impl model scale : list bigQ) : verdict := bcmp_go rt 0 impl model scale.

(* np.power(f, n) for a non-integer n is shipped as a table f -> f**n (the implementation's own
   values of the power; the rule's structure is what is compared) *)
Fixpoint assocB (tbl : list (Q * Q)) (f : bigQ) : bigQ :=
  match tbl with
  | [] => 0
  | (a, b) :: r => if BigQ.eq_bool (bq a) f then bq b else assocB r f
  end.

Definition bdiv0 (a b : bigQ) : bigQ := if BigQ.eq_bool b 0 then 0 else a / b.
Definition bsum (l : list bigQ) : bigQ := fold_right BigQ.add 0 l.

(* magnitude against which a binary64 evaluation of _hashinShtrikmanGeneral can be compared:
   m0 + A/|D| + |Ak|/D^2 (1 + A/(3 m0)),  A = sum |terms|, D = 1 - Ak/(3 m0)  (first-order error
   propagation through the two cancellations).  Only a tolerance: computed with the non-normalising
   operations of BigQ (no gcd). *)
Definition scaleHS (fm : list (bigQ * bigQ)) (m0 : bigQ) : bigQ :=
  let terms := map (hsTerm BQops m0) fm in
  let Ak := bsum terms in
  let A := bsum (map babs terms) in
  let D := 1 - bdiv0 Ak (3 * m0) in
  babs m0 + bdiv0 A (babs D) + bdiv0 (babs Ak) (D * D) * (1 + bdiv0 A (3 * babs m0)).

Definition scaleC (tiny maxf : bigQ) (r : rule) (pw : bigQ -> bigQ) (fr col : list bigQ) : bigQ :=
  match r with
  | HashinUpper => let mm := map (subst BQops tiny) col in scaleHS (combine fr mm) (maxOf BQops mm)
  | HashinLower => let mm := map (subst BQops maxf) col in scaleHS (combine fr mm) (minOf BQops mm)
  | _ => babs (ruleC BQops tiny maxf r pw fr col)
  end.

(* the model cannot be compared with binary64 where it divides by zero (every fraction zero after
   'exclude': numpy returns inf) or leaves the binary64 range (only undefined phases left) *)
Definition degenerate (maxf : bigQ) (r : rule) (fr : list bigQ) (model : list bigQ) : bool :=
  (match r with WienerLower => BigQ.eq_bool (sumT BQops fr) 0 | _ => false end)
  || existsb (fun v => bqleb (maxf / 4) (babs v)) model.

(* The Hashin-Shtrikman magnitude [scaleHS] already carries the amplification by 1/D and 1/D^2 of the
   two cancellations (D down to 1e-12 for a trace amount of the reference phase), so the factor in
   front of it is kept close to the unit round-off: 2^-44 = 512 ulp instead of 2^-36.  With 2^-36 a
   result wrong by a factor 3 at D = 1e-8 would be inside the tolerance. *)
Definition rtOf (rt : bigQ) (r : rule) : bigQ :=
  match r with HashinUpper | HashinLower => rt / 256 | _ => rt end.

(* ---- part A: the public rule functions on a synthetic (p, e) matrix -------------------- *)
Record implA := { a_wu : list Q; a_wl : list Q; a_hu : list Q; a_hl : list Q; a_lab : list Q }.

Definition checkRule (rt tiny maxf : bigQ) (r : rule) (pw : bigQ -> bigQ) (e : nat)
           (mob : list (list bigQ)) (fr : list bigQ) (impl : list Q) :=
  let model := applyRule BQops tiny maxf r pw e mob fr in
  let scale := map (fun j => scaleC tiny maxf r pw fr (col BQops j mob)) (seq 0 e) in
  (degenerate maxf r fr model, bcmpl (rtOf rt r) (bl impl) model scale).

Definition check17a (rt : Q) (tiny maxf : bigQ) (pw : bigQ -> bigQ) (e : nat) (mob : list (list Q)) (fr : list Q) (im : implA) :=
  let rt := bq rt in
  let mob := bll mob in let fr := bl fr in
  [checkRule rt tiny maxf WienerUpper pw e mob fr (a_wu im);
   checkRule rt tiny maxf WienerLower pw e mob fr (a_wl im);
   checkRule rt tiny maxf HashinUpper pw e mob fr (a_hu im);
   checkRule rt tiny maxf HashinLower pw e mob fr (a_hl im);
   checkRule rt tiny maxf Labyrinth pw e mob fr (a_lab im)].

(* ---- part B: a history of computeHomogenizationFunction calls with the hash table on ---- *)
Definition mkD (names : list nat) (mob : list (list Q)) (fr : list Q) : mobData BQops :=
  @mkData BQops names (bll mob) (bl fr).
Definition mkO (r : rule) (p : post) (pw : bigQ -> bigQ) : opts BQops := @mkOpts BQops r p pw.

Definition backendOf (table : list (mobData BQops)) (k : nat) : mobData BQops :=
  nth k table (@mkData BQops [] [] []).

(* impl: one entry per step, None when the implementation raised *)
Fixpoint compareSteps (rt tiny maxf : bigQ) (e : nat) (table : list (mobData BQops))
         (hist : list (opts BQops * nat)) (model : list (list bigQ)) (impl : list (option (list Q)))
  : list (bool * bool * verdict) :=
  match hist, model, impl with
  | (o, k) :: hr, v :: mr, im :: ir =>
      let d' := postprocess BQops (o_post o) (backendOf table k) in
      let scale := map (fun j => scaleC tiny maxf (o_rule o) (o_pw o) (d_fracs d') (col BQops j (d_mob d'))) (seq 0 e) in
      let deg := degenerate maxf (o_rule o) (d_fracs d') v in
      (match im with
       | Some iv => (deg, false, bcmpl (rtOf rt (o_rule o)) (bl iv) v scale)
       | None => (deg, true, None)
       end) :: compareSteps rt tiny maxf e table hr mr ir
  | _, _, _ => []
  end.

(* result per step: (degenerate?, implementation raised?, first disagreement) *)
Definition check17b (rt : Q) (tiny maxf : bigQ) (e : nat) (table : list (mobData BQops))
           (hist : list (opts BQops * nat)) (impl : list (option (list Q))) :=
  let rt := bq rt in
  compareSteps rt tiny maxf e table hist (evalSeq BQops tiny maxf (backendOf table) e hist []) impl.

(* ---- part D: the configuration layer -------------------------------------------------------- *)
Definition mkC (r : rule) (n : Q) (p : post) : config BQops := @mkCfg BQops r (bq n) p.
Definition opRule (r : rule) : cop BQops := @OpRule BQops r.
Definition opLab (n : Q) : cop BQops := @OpLab BQops (bq n).
Definition opPost (p : post) : cop BQops := @OpPost BQops p.

(* result: (configured rule, does the configured factor equal the implementation's exactly?,
            configured post-processing, first disagreement of the configured rule's value on the matrix) *)
Definition check17d (rt : Q) (tiny maxf : bigQ) (c0 : config BQops) (ops : list (cop BQops)) (implFactor : Q)
           (pw : bigQ -> bigQ) (e : nat) (mob : list (list Q)) (fr : list Q) (impl : list Q) :=
  let c := configure BQops c0 ops in
  (c_rule c, BigQ.eq_bool (c_factor c) (bq implFactor), c_post c,
   checkRule (bq rt) tiny maxf (c_rule c) pw e (bll mob) (bl fr) impl).
