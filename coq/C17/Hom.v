(* C17 - the exact-rational instance of the bound rules computes the value of the real-number
   model (Q2R commutes with every rule where the real-side denominators do not vanish), hence the
   ordering theorem transfers to what vm_compute evaluates. *)
From Coq Require Import Reals QArith Qreals List Bool ZArith Lra Lia.
Require Import Kawin.Common.Ops Kawin.Common.Vec Kawin.Common.VecLemmas Kawin.C17.Model Kawin.C17.Proofs.
Import ListNotations.
Open Scope R_scope.

Tactic Notation "lra" := (cbn [T Rops] in *; Lra.lra).

Definition q2r_pair (p : Q * Q) : R * R := (Q2R (fst p), Q2R (snd p)).

Lemma Q2R_neq0 b : Q2R b <> 0 -> ~ (b == 0)%Q.
Proof. intros H E. apply H. rewrite (Qeq_eqR _ _ E). unfold Q2R. simpl. lra. Qed.

Lemma hom_dvd' a b : Q2R b <> 0 -> Q2R (dvd Qops a b) = Q2R a / Q2R b.
Proof. intros H. apply hom_dvd, Q2R_neq0, H. Qed.

Lemma hom_ofZ z : Q2R (ofZ Qops z) = IZR z.
Proof. cbn [ofZ Qops]. unfold Q2R, inject_Z. simpl. field. Qed.

Lemma hom_sumT l : Q2R (sumT Qops l) = sumT Rops (map Q2R l).
Proof. induction l as [|x l IH]; cbn [sumT map]; [apply hom_zero|]. rewrite hom_add, IH. reflexivity. Qed.

Lemma hom_sum_map {A} (g : A -> Q) (h : A -> R) l : Forall (fun a => Q2R (g a) = h a) l ->
  Q2R (sumT Qops (map g l)) = sumT Rops (map h l).
Proof.
  intros H. rewrite hom_sumT, map_map. f_equal.
  induction H as [|a l Ha _ IH]; simpl; [reflexivity|]. rewrite Ha, IH. reflexivity.
Qed.

Lemma hom_wienerUpperP fm : Q2R (wienerUpperP Qops fm) = wienerUpperP Rops (map q2r_pair fm).
Proof.
  unfold wienerUpperP. rewrite map_map. apply hom_sum_map. apply Forall_forall. intros p _.
  rewrite hom_mul. reflexivity.
Qed.

Lemma hom_wienerLowerP fm : Forall (fun p => Q2R (snd p) <> 0) fm ->
  wsum (fun p => fst p * (1 / snd p)) (map q2r_pair fm) <> 0 ->
  Q2R (wienerLowerP Qops fm) = wienerLowerP Rops (map q2r_pair fm).
Proof.
  intros Hm Hs. unfold wienerLowerP.
  assert (E : Q2R (sumT Qops (map (fun p => mul Qops (fst p) (dvd Qops (one Qops) (snd p))) fm))
              = sumT Rops (map (fun p => mul Rops (fst p) (dvd Rops (one Rops) (snd p))) (map q2r_pair fm))).
  { rewrite map_map. apply hom_sum_map. eapply Forall_impl; [|exact Hm]. intros p Hp. cbv beta.
    rewrite hom_mul, hom_dvd' by exact Hp. rewrite hom_one. reflexivity. }
  rewrite hom_dvd'; rewrite E; [rewrite hom_one; reflexivity|exact Hs].
Qed.

Lemma hom_hsTerm m0 p : 2 * Q2R m0 + Q2R (snd p) <> 0 ->
  Q2R (hsTerm Qops m0 p) = hsTerm Rops (Q2R m0) (q2r_pair p).
Proof.
  intros H. unfold hsTerm, two, three.
  assert (D : Q2R (add Qops (mul Qops (ofZ Qops 2) m0) (snd p)) = 2 * Q2R m0 + Q2R (snd p)).
  { rewrite hom_add, hom_mul, hom_ofZ. reflexivity. }
  assert (Dn : Q2R (add Qops (mul Qops (ofZ Qops 2) m0) (snd p)) <> 0) by (rewrite D; exact H).
  rewrite (hom_dvd' _ _ Dn), D.
  rewrite !hom_mul, hom_sub, hom_ofZ. reflexivity.
Qed.

Lemma hom_hsGeneralP fm m0 : Forall (fun p => 2 * Q2R m0 + Q2R (snd p) <> 0) fm -> 3 * Q2R m0 <> 0 ->
  1 - wsum (hsTerm Rops (Q2R m0)) (map q2r_pair fm) / (3 * Q2R m0) <> 0 ->
  Q2R (hsGeneralP Qops fm m0) = hsGeneralP Rops (map q2r_pair fm) (Q2R m0).
Proof.
  intros Ht H3 HD. unfold hsGeneralP.
  assert (EA : Q2R (sumT Qops (map (hsTerm Qops m0) fm)) = wsum (hsTerm Rops (Q2R m0)) (map q2r_pair fm)).
  { unfold wsum. rewrite map_map. apply hom_sum_map. eapply Forall_impl; [|exact Ht]. intros p Hp.
    apply hom_hsTerm, Hp. }
  assert (E3 : Q2R (mul Qops (three Qops) m0) = 3 * Q2R m0).
  { unfold three. rewrite hom_mul, hom_ofZ. reflexivity. }
  assert (ED : Q2R (sub Qops (one Qops) (dvd Qops (sumT Qops (map (hsTerm Qops m0) fm)) (mul Qops (three Qops) m0)))
               = 1 - wsum (hsTerm Rops (Q2R m0)) (map q2r_pair fm) / (3 * Q2R m0)).
  { rewrite hom_sub, hom_one, hom_dvd' by (rewrite E3; exact H3). rewrite EA, E3. reflexivity. }
  rewrite hom_add, hom_dvd' by (rewrite ED; exact HD). rewrite ED, EA.
  unfold wsum, three. Rnorm. reflexivity.
Qed.

Lemma hom_amax x l : Q2R (amax Qops x l) = amax Rops (Q2R x) (map Q2R l).
Proof.
  revert x; induction l as [|y l IH]; intros x; simpl; [reflexivity|]. rewrite IH. f_equal.
  unfold maxT. rewrite hom_ltb. destruct (ltb Rops (Q2R x) (Q2R y)); reflexivity.
Qed.
Lemma hom_amin x l : Q2R (amin Qops x l) = amin Rops (Q2R x) (map Q2R l).
Proof.
  revert x; induction l as [|y l IH]; intros x; simpl; [reflexivity|]. rewrite IH. f_equal.
  unfold minT. rewrite hom_ltb. destruct (ltb Rops (Q2R y) (Q2R x)); reflexivity.
Qed.
Lemma hom_maxOf l : l <> [] -> Q2R (maxOf Qops l) = maxOf Rops (map Q2R l).
Proof. destruct l as [|x l]; [congruence|]. intros _. apply hom_amax. Qed.
Lemma hom_minOf l : l <> [] -> Q2R (minOf Qops l) = minOf Rops (map Q2R l).
Proof. destruct l as [|x l]; [congruence|]. intros _. apply hom_amin. Qed.

(* ---- under the hypotheses of the ordering theorem ------------------------------------------ *)
Definition pos_pairQ (p : Q * Q) : Prop := (0 <= fst p)%Q /\ (0 < snd p)%Q.

Lemma pos_pairQ_R fm : Forall pos_pairQ fm -> Forall pos_pair (map q2r_pair fm).
Proof.
  induction 1 as [|p l [Hf Hm] _ IH]; simpl; constructor; [|exact IH].
  split; simpl.
  - apply Qle_Rle in Hf. replace (Q2R 0) with 0 in Hf by (unfold Q2R; simpl; lra). exact Hf.
  - apply Qlt_Rlt in Hm. replace (Q2R 0) with 0 in Hm by (unfold Q2R; simpl; lra). exact Hm.
Qed.

Lemma sumF_Q fm : (sumT Qops (map fst fm) == 1)%Q -> sumF (map q2r_pair fm) = 1.
Proof.
  intros E. apply Qeq_eqR in E. rewrite hom_sumT in E. unfold sumF, wsum.
  rewrite !map_map in *. replace (Q2R 1) with 1 in E by (unfold Q2R; simpl; lra). exact E.
Qed.

Lemma map_snd_q2r fm : map snd (map q2r_pair fm) = map Q2R (map snd fm).
Proof. rewrite !map_map. reflexivity. Qed.

(* the denominator of _hashinShtrikmanGeneral is 3 m0 (sum f / (2 m0 + m)) > 0 *)
Lemma hs_denominator fm m0 : 0 < m0 -> Forall pos_pair fm -> sumF fm = 1 ->
  0 < 1 - wsum (hsTerm Rops m0) fm / (3 * m0).
Proof.
  intros Hm Hl H1. rewrite (hsTerm_sum fm m0 Hm Hl), H1.
  assert (Hs : 0 < wsum (fun p => fst p * / (2 * m0 + snd p)) fm) by (apply winv_pos; lra || assumption).
  set (s := wsum (fun p => fst p * / (2 * m0 + snd p)) fm) in *.
  assert (D : 1 - 3 * m0 * (1 - 3 * m0 * s) / (3 * m0) = 3 * m0 * s) by (field; lra).
  rewrite D. nra.
Qed.

Lemma hom_hsGeneral_pos fm m0 : 0 < Q2R m0 -> Forall pos_pairQ fm -> (sumT Qops (map fst fm) == 1)%Q ->
  Q2R (hsGeneralP Qops fm m0) = hsGeneralP Rops (map q2r_pair fm) (Q2R m0).
Proof.
  intros Hm Hl H1. pose proof (pos_pairQ_R fm Hl) as HlR. pose proof (sumF_Q fm H1) as H1R.
  apply hom_hsGeneralP.
  - clear H1 H1R HlR. induction Hl as [|p l [Hf Hp] _ IH]; constructor; [|exact IH].
    apply Qlt_Rlt in Hp. replace (Q2R 0) with 0 in Hp by (unfold Q2R; simpl; lra). lra.
  - lra.
  - pose proof (hs_denominator (map q2r_pair fm) (Q2R m0) Hm HlR H1R). lra.
Qed.

(* The four bound rules of the executable instance are the real model's values ... *)
Lemma rules_Q2R fm : Forall pos_pairQ fm -> (sumT Qops (map fst fm) == 1)%Q ->
  Q2R (wienerLowerP Qops fm) = wienerLowerP Rops (map q2r_pair fm) /\
  Q2R (hsLowerP Qops fm) = hsLowerP Rops (map q2r_pair fm) /\
  Q2R (hsUpperP Qops fm) = hsUpperP Rops (map q2r_pair fm) /\
  Q2R (wienerUpperP Qops fm) = wienerUpperP Rops (map q2r_pair fm) /\
  Q2R (minOf Qops (map snd fm)) = minM (map q2r_pair fm) /\
  Q2R (maxOf Qops (map snd fm)) = maxM (map q2r_pair fm).
Proof.
  intros Hl H1. pose proof (pos_pairQ_R fm Hl) as HlR. pose proof (sumF_Q fm H1) as H1R.
  pose proof (sumF_one_nonempty _ H1R) as N.
  assert (NQ : map snd fm <> []). { destruct fm; [exfalso; apply N; reflexivity|discriminate]. }
  destruct (minM_spec _ N HlR) as (Hmin & _). destruct (maxM_spec _ N HlR) as (Hmax & _).
  assert (Emin : Q2R (minOf Qops (map snd fm)) = minM (map q2r_pair fm)).
  { unfold minM. rewrite map_snd_q2r. apply hom_minOf, NQ. }
  assert (Emax : Q2R (maxOf Qops (map snd fm)) = maxM (map q2r_pair fm)).
  { unfold maxM. rewrite map_snd_q2r. apply hom_maxOf, NQ. }
  repeat split; try assumption.
  - apply hom_wienerLowerP.
    + clear -Hl. induction Hl as [|p l [Hf Hp] _ IH]; constructor; [|exact IH].
      apply Qlt_Rlt in Hp. replace (Q2R 0) with 0 in Hp by (unfold Q2R; simpl; lra). lra.
    + assert (P : 0 < wsum (fun p => fst p * / (0 + snd p)) (map q2r_pair fm)) by (apply winv_pos; lra || assumption).
      rewrite (wsum_ext (fun p => fst p * (1 / snd p)) (fun p => fst p * / (0 + snd p))); [lra|].
      apply Forall_forall. intros p _. rewrite Rplus_0_l. unfold Rdiv. rewrite Rmult_1_l. reflexivity.
  - unfold hsLowerP. cbn [T Qops] in *. rewrite hom_hsGeneral_pos; try assumption; rewrite Emin; [|exact Hmin].
    unfold minM. reflexivity.
  - unfold hsUpperP. cbn [T Qops] in *. rewrite hom_hsGeneral_pos; try assumption; rewrite Emax; [|exact Hmax].
    unfold maxM. reflexivity.
  - apply hom_wienerUpperP.
Qed.

(* ... hence the ordering holds for the rational numbers vm_compute produces *)
Lemma bounds_ordered_Q fm : Forall pos_pairQ fm -> (sumT Qops (map fst fm) == 1)%Q ->
  (minOf Qops (map snd fm) <= wienerLowerP Qops fm)%Q /\
  (wienerLowerP Qops fm <= hsLowerP Qops fm)%Q /\
  (hsLowerP Qops fm <= hsUpperP Qops fm)%Q /\
  (hsUpperP Qops fm <= wienerUpperP Qops fm)%Q /\
  (wienerUpperP Qops fm <= maxOf Qops (map snd fm))%Q.
Proof.
  intros Hl H1. destruct (rules_Q2R fm Hl H1) as (E1 & E2 & E3 & E4 & E5 & E6).
  destruct (bounds_ordered (map q2r_pair fm) (pos_pairQ_R fm Hl) (sumF_Q fm H1)) as (B1 & B2 & B3 & B4 & B5).
  repeat split; apply Rle_Qle; rewrite ?E1, ?E2, ?E3, ?E4, ?E5, ?E6; assumption.
Qed.
