(* C07 - faithful model of the size-class transport kernels of
   kawin/precipitation/PopulationBalance.py:
     getdXdtEuler (531-568), correctdXdtEuler (570-620), getDTEuler (493-529),
     getDissolutionIndex (466-490), MomentFromN / CumulativeMomentFromN (637-661).
   Executable definitions only (no proofs), polymorphic in the scalar record. *)
From Coq Require Import List Bool ZArith Arith.
Require Import Kawin.Common.Ops Kawin.Common.Vec.
Import ListNotations.

Section C07.
Variable O : Ops.
Notation t := (T O).

(* np.sign(flux) followed by  fluxSign[fluxSign == -1] = 0 *)
Definition fluxSign (g : t) : t := if ltb O (zero O) g then one O else zero O.

Fixpoint zip3 {A B C D} (f : A -> B -> C -> D) (a : list A) (b : list B) (c : list C) : list D :=
  match a, b, c with
  | x :: a', y :: b', z :: c' => f x y z :: zip3 f a' b' c'
  | _, _, _ => []
  end.

(* flux[:-1] * psd * (1 - fluxSign[:-1]) / dR *)
Definition leftTerm (g p d : t) : t :=
  dvd O (mul O (mul O g p) (sub O (one O) (fluxSign g))) d.
(* flux[1:] * psd * fluxSign[1:] / dR *)
Definition rightTerm (g p d : t) : t :=
  dvd O (mul O (mul O g p) (fluxSign g)) d.

(* self._netFlux after getdXdtEuler: bins+1 faces *)
Definition netFlux (bounds psd g : list t) : list t :=
  let dR := diffs O bounds in
  zipWith (add O) (zip3 leftTerm (init_ g) psd dR ++ [zero O])
                  (zero O :: zip3 rightTerm (tail_ g) psd dR).

(* nRad = np.clip(np.searchsorted(self.PSDbounds, nucRadius, side='right') - 1, 0, len(dXdt) - 1)
   For sorted bounds searchsorted(side='right') is the number of boundaries <= nucRadius (numpy uses a
   binary search; the model counts, the two agree on sorted arrays - sortedness is part of the grid
   invariant proved in C08 and a hypothesis of the theorems here). *)
Definition searchsorted_right (bounds : list t) (x : t) : nat :=
  length (filter (fun b => leb O b x) bounds).
Definition nRad (bounds : list t) (Rnuc : t) : nat :=
  Nat.min (searchsorted_right bounds Rnuc - 1) (length bounds - 1 - 1).

(* dXdt = netFlux[:-1] - netFlux[1:] ; dXdt[nRad] += nucRate *)
Definition dXdt_of (nf bounds : list t) (nucRate Rnuc : t) : list t :=
  add_at O (zipWith (sub O) (init_ nf) (tail_ nf)) (nRad bounds Rnuc) nucRate.

Definition getdXdt (bounds psd g : list t) (nucRate Rnuc : t) : list t :=
  dXdt_of (netFlux bounds psd g) bounds nucRate Rnuc.

(* correctdXdtEuler: two masked assignments, the second one reads the result of the first *)
Definition limitBelow (dt : t) (nf psd : list t) : list t :=
  zipWith (fun f p => if ltb O (mul O f dt) (negT O p) then dvd O (negT O p) dt else f)
          (init_ nf) psd ++ [last nf (zero O)].
Definition limitAbove (dt : t) (nf psd : list t) : list t :=
  hd (zero O) nf ::
  zipWith (fun f p => if ltb O p (mul O f dt) then dvd O p dt else f) (tail_ nf) psd.
(* third stage (kawin commit "fix: limit the total outflow of a size class"): a class can lose through
   both faces; the two outgoing fluxes are scaled so that the total leaving is at most what it holds
     outflow = (maximum(-nf[:-1], 0) + maximum(nf[1:], 0)) * dt
     scale   = psd / outflow  where outflow > psd, else 1
     nf[:-1] = where(nf[:-1] < 0, nf[:-1] * scale, nf[:-1]) ; nf[1:] = where(nf[1:] > 0, nf[1:] * scale, nf[1:]) *)
Definition outflowOf (dt fl fr : t) : t :=
  mul O (add O (maxT O (negT O fl) (zero O)) (maxT O fr (zero O))) dt.
Definition scaleOf (dt : t) (nf psd : list t) : list t :=
  zip3 (fun fl fr p => let o := outflowOf dt fl fr in if ltb O p o then dvd O p o else one O)
       (init_ nf) (tail_ nf) psd.
Definition limitClass (dt : t) (nf psd : list t) : list t :=
  let sc := scaleOf dt nf psd in
  let nf1 := zipWith (fun f s => if ltb O f (zero O) then mul O f s else f) (init_ nf) sc
             ++ [last nf (zero O)] in
  hd (zero O) nf1 ::
  zipWith (fun f s => if ltb O (zero O) f then mul O f s else f) (tail_ nf1) sc.

Definition correctFlux (dt : t) (nf psd : list t) : list t :=
  limitClass dt (limitAbove dt (limitBelow dt nf psd) psd) psd.

Definition correctdXdt (dt : t) (bounds psd g : list t) (nucRate Rnuc : t) : list t :=
  dXdt_of (correctFlux dt (netFlux bounds psd g) psd) bounds nucRate Rnuc.

(* getDTEuler *)
Definition growthFilter (g psd : list t) (d : nat) : list t :=
  map fst (filter (fun gp => ltb O (zero O) (snd gp))
                  (combine (skipn d (init_ g)) (skipn d psd))).
Definition getDT (currDT : t) (bounds psd g : list t) (d : nat) (maxRatio : t) : t :=
  match map (absT O) (growthFilter g psd d) with
  | [] => currDT
  | a :: r =>
      let m := amax O a r in
      if eqb O m (zero O) then currDT
      else dvd O (mul O maxRatio (sub O (nthT O bounds 1) (nthT O bounds 0))) m
  end.

(* moments on a supplied distribution *)
Definition momentFromN (size N : list t) (order : nat) : t :=
  sumT O (zipWith (fun n r => mul O n (powT O r order)) N size).
Definition cumMomentFromN (size N : list t) (order : nat) : list t :=
  cumsum O (zipWith (fun n r => mul O n (powT O r order)) N size).

(* getDissolutionIndex(maxDissolution, minIndex) *)
Definition dissolutionIndex (size psd : list t) (maxDiss : t) (minIndex : nat) : nat :=
  let dissFrac := mul O maxDiss (momentFromN size psd 3) in
  Nat.max (argmax_first (map (fun c => ltb O dissFrac c) (cumMomentFromN size psd 3))) minIndex.

End C07.

Arguments zip3 {A B C D} f a b c.
