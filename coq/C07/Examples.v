(* C07 - non-vacuity examples and refutation witnesses. *)
From Coq Require Import Reals QArith List ZArith Lra Lia.
Require Import Kawin.Common.Ops Kawin.Common.Vec Kawin.Common.VecLemmas Kawin.C07.Model Kawin.C07.Proofs.
Import ListNotations.

(* the hypotheses of the theorems are satisfiable: a 3-class grid *)
Open Scope R_scope.
Example wf_example : wf [1; 2; 3; 4] [5; 0; 7] [-1; 1; 0; 2] /\ incr [1; 2; 3; 4] /\ nonneg [5; 0; 7].
Proof.
  split; [unfold wf; simpl; lia|]. split.
  - intros i j [Hij Hj]. simpl in Hj.
    destruct i as [|[|[|[|i]]]]; destruct j as [|[|[|[|j]]]]; simpl; try lia; try lra.
  - intros [|[|[|k]]]; simpl; try lra. destruct k; lra.
Qed.
Close Scope R_scope.

(* executable instance: the same model evaluated on exact rationals *)
Open Scope Q_scope.
Definition exB : list Q := [1; 2; 3; 4].
Definition exP : list Q := [5; 0; 7].
Definition exG : list Q := [-1; 1; 0; 2].
Example netFlux_example : netFlux Qops exB exP exG = [-5; 5; 0; 14].
Proof. vm_compute. reflexivity. Qed.
Example dXdt_example : getdXdt Qops exB exP exG 3 (5#2) = [-10; 5+3; -14].
Proof. vm_compute. reflexivity. Qed.

(* A nucleation radius below the grid goes to the first class, above the grid to the last one
   (before the repair of kawin commit "fix: nucleated particles outside the PSD grid ..." the
   faithful model gave the LAST class for a radius below the grid: argmax 0, index -1 wrapped). *)
Example nuc_below_first : nRad Qops exB (1#2) = 0%nat /\ getdXdt Qops exB [0;0;0] [0;0;0;0] 1 (1#2) = [1; 0; 0].
Proof. vm_compute. split; reflexivity. Qed.
Example nuc_above_last : nRad Qops exB 9 = 2%nat /\ nRad Qops exB 4 = 2%nat /\ nRad Qops exB 3 = 2%nat /\ nRad Qops exB (5#2) = 1%nat.
Proof. vm_compute. repeat split; reflexivity. Qed.

(* A class outside the step limit that would lose through both faces (psd_1 = 4, each face asks for
   40 within dt = 1): the per-face limits cut each to 4, the class-wise limit scales both to 2, the
   class ends at exactly 0.  (Before kawin commit "fix: limit the total outflow of a size class" the
   result was -4: the limiter was per face only.) *)
Example two_face_limited :
  let d := correctdXdt Qops 1 exB [0; 4; 0] [0; -10; 10; 0] 0 (5#2) in
  d = [2; -4; 2] /\ Qeq_bool (4 + 1 * nth 1 d 0) 0 = true.
Proof. vm_compute. split; reflexivity. Qed.
