(* C07 - the exact-rational instance of the transport kernel is the real instance on rational
   inputs: Q2R commutes with netFlux (division by the class widths needs them non-zero).
   Consequence: a vm_compute result of the correspondence check on [Qops] IS the value of the
   real-number model the theorems of Properties.v are about. *)
From Coq Require Import Reals QArith Qreals List Bool ZArith Arith Lia Lra.
Require Import Kawin.Common.Ops Kawin.Common.Vec Kawin.C07.Model.
Import ListNotations.

Notation q2r := (map Q2R).

Lemma map_zipWith_hom {A B C A' B' C'} (ha : A -> A') (hb : B -> B') (hc : C -> C')
      (f : A -> B -> C) (f' : A' -> B' -> C') l1 l2 :
  (forall a b, hc (f a b) = f' (ha a) (hb b)) ->
  map hc (zipWith f l1 l2) = zipWith f' (map ha l1) (map hb l2).
Proof.
  intros H. revert l2; induction l1 as [|a l1 IH]; intros [|b l2]; cbn [zipWith map]; auto. rewrite H, IH. reflexivity.
Qed.

Lemma map_removelast {A B} (f : A -> B) l : map f (removelast l) = removelast (map f l).
Proof. induction l as [|a [|b l] IH]; simpl in *; auto. rewrite IH. reflexivity. Qed.

Lemma map_tl {A B} (f : A -> B) l : map f (tl l) = tl (map f l).
Proof. destruct l; reflexivity. Qed.

Lemma diffs_hom l : q2r (diffs Qops l) = diffs Rops (q2r l).
Proof.
  induction l as [|a [|b l] IH]; [reflexivity|reflexivity|].
  change (diffs Qops (a :: b :: l)) with (sub Qops b a :: diffs Qops (b :: l)).
  change (q2r (a :: b :: l)) with (Q2R a :: q2r (b :: l)).
  cbn [map]. rewrite hom_sub. rewrite IH. reflexivity.
Qed.

Lemma fluxSign_hom g : Q2R (fluxSign Qops g) = fluxSign Rops (Q2R g).
Proof.
  unfold fluxSign. rewrite hom_ltb. rewrite hom_zero.
  destruct (ltb Rops (zero Rops) (Q2R g)); [apply hom_one | apply hom_zero].
Qed.

Lemma leftTerm_hom g p d : ~ (d == 0)%Q ->
  Q2R (leftTerm Qops g p d) = leftTerm Rops (Q2R g) (Q2R p) (Q2R d).
Proof.
  intros H. unfold leftTerm. rewrite hom_dvd by exact H. rewrite !hom_mul, hom_sub, hom_one, fluxSign_hom.
  reflexivity.
Qed.

Lemma rightTerm_hom g p d : ~ (d == 0)%Q ->
  Q2R (rightTerm Qops g p d) = rightTerm Rops (Q2R g) (Q2R p) (Q2R d).
Proof.
  intros H. unfold rightTerm. rewrite hom_dvd by exact H. rewrite !hom_mul, fluxSign_hom. reflexivity.
Qed.

Lemma zip3_hom (fq : Q -> Q -> Q -> Q) (fr : R -> R -> R -> R) a b d :
  (forall x y z, ~ (z == 0)%Q -> Q2R (fq x y z) = fr (Q2R x) (Q2R y) (Q2R z)) ->
  Forall (fun z => ~ (z == 0)%Q) d ->
  q2r (zip3 fq a b d) = zip3 fr (q2r a) (q2r b) (q2r d).
Proof.
  intros H. revert b d; induction a as [|x a IH]; intros [|y b] [|z d] Hd; cbn [zip3 map]; auto.
  inversion Hd as [|? ? Hz Hd']; subst. rewrite H by exact Hz. rewrite IH by exact Hd'. reflexivity.
Qed.

Theorem netFlux_hom b p g :
  Forall (fun z => ~ (z == 0)%Q) (diffs Qops b) ->
  q2r (netFlux Qops b p g) = netFlux Rops (q2r b) (q2r p) (q2r g).
Proof.
  intros Hd. unfold netFlux.
  rewrite (map_zipWith_hom Q2R Q2R Q2R _ (add Rops)) by (intros; apply hom_add).
  assert (EL : q2r (zip3 (leftTerm Qops) (init_ g) p (diffs Qops b) ++ [zero Qops])
               = zip3 (leftTerm Rops) (init_ (q2r g)) (q2r p) (diffs Rops (q2r b)) ++ [zero Rops]).
  { rewrite map_app. cbn [map]. rewrite hom_zero.
    rewrite (zip3_hom _ (leftTerm Rops)) by (auto using leftTerm_hom).
    unfold init_. rewrite map_removelast, diffs_hom. reflexivity. }
  assert (ER : q2r (zero Qops :: zip3 (rightTerm Qops) (tail_ g) p (diffs Qops b))
               = zero Rops :: zip3 (rightTerm Rops) (tail_ (q2r g)) (q2r p) (diffs Rops (q2r b))).
  { cbn [map]. rewrite hom_zero.
    rewrite (zip3_hom _ (rightTerm Rops)) by (auto using rightTerm_hom).
    unfold tail_. rewrite map_tl, diffs_hom. reflexivity. }
  rewrite EL, ER. reflexivity.
Qed.
Print Assumptions netFlux_hom.

(* the index of the nucleation class is the same on both instances *)
Lemma filter_length_hom (fq : Q -> bool) (fr : R -> bool) l :
  (forall x, fq x = fr (Q2R x)) -> length (filter fq l) = length (filter fr (q2r l)).
Proof.
  intros H. induction l as [|a l IH]; cbn [filter map length]; auto. rewrite <- H. destruct (fq a); cbn [length]; rewrite IH; reflexivity.
Qed.

Theorem nRad_hom b rn : nRad Qops b rn = nRad Rops (q2r b) (Q2R rn).
Proof.
  unfold nRad, searchsorted_right. rewrite map_length.
  rewrite (filter_length_hom _ (fun x => leb Rops x (Q2R rn))) by (intros; apply hom_leb). reflexivity.
Qed.

Lemma add_at_hom l k v : q2r (add_at Qops l k v) = add_at Rops (q2r l) k (Q2R v).
Proof.
  revert k; induction l as [|a l IH]; intros [|k]; cbn [add_at map]; auto.
  - rewrite hom_add. reflexivity.
  - rewrite IH. reflexivity.
Qed.

Theorem getdXdt_hom b p g nr rn :
  Forall (fun z => ~ (z == 0)%Q) (diffs Qops b) ->
  q2r (getdXdt Qops b p g nr rn) = getdXdt Rops (q2r b) (q2r p) (q2r g) (Q2R nr) (Q2R rn).
Proof.
  intros Hd. unfold getdXdt, dXdt_of. rewrite add_at_hom, nRad_hom. f_equal.
  rewrite (map_zipWith_hom Q2R Q2R Q2R _ (sub Rops)) by (intros; apply hom_sub).
  unfold init_, tail_. rewrite map_removelast, map_tl, netFlux_hom by exact Hd. reflexivity.
Qed.
Print Assumptions getdXdt_hom.

Ltac zw_hom := match goal with |- map Q2R (zipWith ?f _ _) = zipWith ?f' _ _ => apply (map_zipWith_hom Q2R Q2R Q2R f f') end.

(* ---- the corrector --------------------------------------------------------------------- *)
Lemma hom_negT x : Q2R (negT Qops x) = negT Rops (Q2R x).
Proof. unfold negT. rewrite hom_sub, hom_zero. reflexivity. Qed.

Lemma hom_maxT a b : Q2R (maxT Qops a b) = maxT Rops (Q2R a) (Q2R b).
Proof. unfold maxT. rewrite hom_ltb. destruct (ltb Rops (Q2R a) (Q2R b)); reflexivity. Qed.

Lemma last_hom l : Q2R (last l (zero Qops)) = last (q2r l) (zero Rops).
Proof.
  induction l as [|a [|b l] IH]; [apply hom_zero | reflexivity |].
  change (last (a :: b :: l) (zero Qops)) with (last (b :: l) (zero Qops)).
  change (q2r (a :: b :: l)) with (Q2R a :: q2r (b :: l)).
  change (last (Q2R a :: q2r (b :: l)) (zero Rops)) with (last (q2r (b :: l)) (zero Rops)). exact IH.
Qed.

Lemma hd_hom l : Q2R (hd (zero Qops) l) = hd (zero Rops) (q2r l).
Proof. destruct l; [apply hom_zero | reflexivity]. Qed.

Lemma limitBelow_hom dt nf psd : ~ (dt == 0)%Q ->
  q2r (limitBelow Qops dt nf psd) = limitBelow Rops (Q2R dt) (q2r nf) (q2r psd).
Proof.
  intros Hdt. unfold limitBelow. rewrite map_app. cbn [map]. rewrite last_hom. apply (f_equal2 (@app R)); [|reflexivity].
  unfold init_. rewrite <- map_removelast.
  zw_hom. intros f p.
  rewrite hom_ltb, hom_mul, hom_negT.
  destruct (ltb Rops _ _); [|reflexivity]. rewrite hom_dvd by exact Hdt. rewrite hom_negT. reflexivity.
Qed.

Lemma limitAbove_hom dt nf psd : ~ (dt == 0)%Q ->
  q2r (limitAbove Qops dt nf psd) = limitAbove Rops (Q2R dt) (q2r nf) (q2r psd).
Proof.
  intros Hdt. unfold limitAbove. cbn [map]. rewrite hd_hom. apply (f_equal2 (@cons R)); [reflexivity|].
  unfold tail_. rewrite <- map_tl.
  zw_hom. intros f p.
  rewrite hom_ltb, hom_mul.
  destruct (ltb Rops _ _); [|reflexivity]. rewrite hom_dvd by exact Hdt. reflexivity.
Qed.

Lemma outflowOf_hom dt fl fr : Q2R (outflowOf Qops dt fl fr) = outflowOf Rops (Q2R dt) (Q2R fl) (Q2R fr).
Proof. unfold outflowOf. rewrite hom_mul, hom_add, !hom_maxT, hom_negT, hom_zero. reflexivity. Qed.

Lemma zip3_hom_dep (fq : Q -> Q -> Q -> Q) (fr : R -> R -> R -> R) (P : Q -> Prop) a b d :
  (forall x y z, P z -> Q2R (fq x y z) = fr (Q2R x) (Q2R y) (Q2R z)) ->
  Forall P d -> q2r (zip3 fq a b d) = zip3 fr (q2r a) (q2r b) (q2r d).
Proof.
  intros H. revert b d; induction a as [|x a IH]; intros [|y b] [|z d] Hd; cbn [zip3 map]; auto.
  inversion Hd as [|? ? Hz Hd']; subst. rewrite H by exact Hz. rewrite IH by exact Hd'. reflexivity.
Qed.

Lemma scaleOf_hom dt nf psd : Forall (fun p => (0 <= p)%Q) psd ->
  q2r (scaleOf Qops dt nf psd) = scaleOf Rops (Q2R dt) (q2r nf) (q2r psd).
Proof.
  intros Hp. unfold scaleOf, init_, tail_. rewrite <- map_removelast, <- map_tl.
  apply (zip3_hom_dep _ _ (fun p => (0 <= p)%Q)); [|exact Hp].
  intros fl fr p Hp0. cbv zeta. rewrite hom_ltb, outflowOf_hom.
  destruct (ltb Rops (Q2R p) _) eqn:E; [|apply hom_one].
  rewrite hom_dvd; [rewrite outflowOf_hom; reflexivity|].
  (* the divisor exceeds p >= 0, hence is not zero *)
  rewrite <- outflowOf_hom, <- hom_ltb in E. cbn [ltb Qops] in E. unfold Qltb in E.
  destruct (Qcompare p (outflowOf Qops dt fl fr)) eqn:C; try discriminate.
  apply Qlt_alt in C. intros Hz. rewrite Hz in C. apply (Qlt_not_le _ _ C). exact Hp0.
Qed.

Lemma limitClass_hom dt nf psd : Forall (fun p => (0 <= p)%Q) psd ->
  q2r (limitClass Qops dt nf psd) = limitClass Rops (Q2R dt) (q2r nf) (q2r psd).
Proof.
  intros Hp. unfold limitClass. cbv zeta.
  set (LQ := zipWith (fun f s => if ltb Qops f (zero Qops) then mul Qops f s else f) (init_ nf) (scaleOf Qops dt nf psd)
             ++ [last nf (zero Qops)]).
  set (LR := zipWith (fun f s => if ltb Rops f (zero Rops) then mul Rops f s else f) (init_ (q2r nf)) (scaleOf Rops (Q2R dt) (q2r nf) (q2r psd))
             ++ [last (q2r nf) (zero Rops)]).
  assert (E1 : q2r LQ = LR).
  { unfold LQ, LR. rewrite map_app. cbn [map]. rewrite last_hom. apply (f_equal2 (@app R)); [|reflexivity].
    rewrite <- scaleOf_hom by exact Hp. unfold init_. rewrite <- map_removelast.
    zw_hom. intros f s. rewrite hom_ltb, hom_zero.
    destruct (ltb Rops _ _); [apply hom_mul | reflexivity]. }
  cbn [map]. rewrite hd_hom, E1. apply (f_equal2 (@cons R)); [reflexivity|].
  transitivity (zipWith (fun f s => if ltb Rops (zero Rops) f then mul Rops f s else f) (tail_ LR)
                        (scaleOf Rops (Q2R dt) (q2r nf) (q2r psd))); [|reflexivity].
  rewrite <- E1, <- scaleOf_hom by exact Hp. unfold tail_. rewrite <- map_tl.
  zw_hom. intros f s. rewrite hom_ltb, hom_zero.
  destruct (ltb Rops _ _); [apply hom_mul | reflexivity].
Qed.

Theorem correctFlux_hom dt nf psd : ~ (dt == 0)%Q -> Forall (fun p => (0 <= p)%Q) psd ->
  q2r (correctFlux Qops dt nf psd) = correctFlux Rops (Q2R dt) (q2r nf) (q2r psd).
Proof.
  intros Hdt Hp. unfold correctFlux.
  rewrite limitClass_hom by exact Hp. rewrite limitAbove_hom by exact Hdt. rewrite limitBelow_hom by exact Hdt.
  reflexivity.
Qed.

Theorem correctdXdt_hom dt b p g nr rn :
  Forall (fun z => ~ (z == 0)%Q) (diffs Qops b) -> ~ (dt == 0)%Q -> Forall (fun x => (0 <= x)%Q) p ->
  q2r (correctdXdt Qops dt b p g nr rn) =
    correctdXdt Rops (Q2R dt) (q2r b) (q2r p) (q2r g) (Q2R nr) (Q2R rn).
Proof.
  intros Hd Hdt Hp. unfold correctdXdt, dXdt_of. rewrite add_at_hom, nRad_hom. f_equal.
  rewrite (map_zipWith_hom Q2R Q2R Q2R _ (sub Rops)) by (intros; apply hom_sub).
  unfold init_, tail_. rewrite map_removelast, map_tl, correctFlux_hom, netFlux_hom by assumption. reflexivity.
Qed.
Print Assumptions correctdXdt_hom.
