(* C07 - correspondence driver: evaluates the model on the exact-rational instance and compares
   with the outputs the implementation produced for the same inputs. *)
From Coq Require Import QArith List ZArith Bool.
Require Import Kawin.Common.Ops Kawin.Common.Vec Kawin.Common.Out Kawin.C07.Model.
Import ListNotations.
Open Scope Q_scope.

Fixpoint pairsum (nuc : Q) (l : list Q) : list Q :=
  match l with
  | a :: ((b :: _) as r) => (qabs a + qabs b + qabs nuc) :: pairsum nuc r
  | _ => []
  end.

(* is any limiter comparison (face flux * dt against -psd / psd) within tolerance of a tie? *)
Fixpoint lim_tie (rt dt : Q) (nf psd : list Q) : bool :=
  match nf, psd with
  | f0 :: ((f1 :: _) as r), p :: ps =>
      near_tie rt (f0 * dt) (- p) || near_tie rt (f1 * dt) p || lim_tie rt dt r ps
  | _, _ => false
  end.

(* third stage: total outflow of a class (after the per-face limits) within tolerance of what it holds *)
Fixpoint class_tie (rt dt : Q) (nf psd : list Q) : bool :=
  match nf, psd with
  | f0 :: ((f1 :: _) as r), p :: ps =>
      near_tie rt (Qred ((qmax (- f0) 0 + qmax f1 0) * dt)) p || class_tie rt dt r ps
  | _, _ => false
  end.

Record impl07 := { i_nf : list Q; i_dx : list Q; i_nf2 : list Q; i_dx2 : list Q; i_dt : Q; i_diss : nat }.

(* result: (netFlux, dXdt, limiter tie?, corrected netFlux, corrected dXdt, getDT,
            dissolution tie?, dissolution index agrees?, model's dissolution index) *)
Definition check07 (rt : Q) (ties : bool) (b p g : list Q) (nr rn dt cur mr md : Q) (d mi : nat) (im : impl07) :=
  let nf := netFlux Qops b p g in
  let nf2 := correctFlux Qops dt nf p in
  let size := mids Qops b in
  let dissFrac := mul Qops md (momentFromN Qops size p 3) in
  let cum := cumMomentFromN Qops size p 3 in
  let dmod := dissolutionIndex Qops size p md mi in
  let ltie := ties && (lim_tie (rt * 64) dt nf p || class_tie (rt * 64) dt (limitAbove Qops dt (limitBelow Qops dt nf p) p) p) in
  let dtie := ties && existsb (fun c => near_tie (rt * 1024) c dissFrac) cum in
  (cmpl_rel rt (i_nf im) nf,
   cmpl rt (i_dx im) (dXdt_of Qops nf b nr rn) (pairsum nr nf),
   ltie,
   if ltie then None else cmpl rt (i_nf2 im) nf2 (zipWith qmax (map qabs nf) (map qabs nf2)),
   if ltie then None else cmpl rt (i_dx2 im) (dXdt_of Qops nf2 b nr rn) (pairsum nr nf2),
   cmp1 rt (i_dt im) (getDT Qops cur b p g d mr),
   dtie,
   (dtie || Nat.eqb (i_diss im) dmod)%bool,
   dmod).
