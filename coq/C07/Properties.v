(* C07 - Size-class transport is conservative and bounded.
   This file contains ONLY the property theorems; each is closed by [exact] of a lemma of Proofs.v
   and followed by Print Assumptions.  All statements are about the real-number instance
   [Rops] of the model in Model.v (kawin/precipitation/PopulationBalance.py). *)
From Coq Require Import Reals List Arith.
Require Import Kawin.Common.Ops Kawin.Common.Vec Kawin.Common.VecLemmas Kawin.C07.Model Kawin.C07.Proofs.
Open Scope R_scope.

(* the rate of change sums to nucleation plus what crosses the two ends of the grid *)
Theorem C07_sum_dXdt bounds psd g nucRate Rnuc : wf bounds psd g ->
  sumR (getdXdt Rops bounds psd g nucRate Rnuc) =
    nucRate + nthR (netFlux Rops bounds psd g) 0 - nthR (netFlux Rops bounds psd g) (length psd).
Proof. exact (sum_getdXdt bounds psd g nucRate Rnuc). Qed.
Print Assumptions C07_sum_dXdt.

(* ... and still does after the step-size correction *)
Theorem C07_sum_corrected dt bounds psd g nucRate Rnuc : wf bounds psd g ->
  sumR (correctdXdt Rops dt bounds psd g nucRate Rnuc) =
    nucRate + nthR (correctFlux Rops dt (netFlux Rops bounds psd g) psd) 0
            - nthR (correctFlux Rops dt (netFlux Rops bounds psd g) psd) (length psd).
Proof. exact (sum_correctdXdt dt bounds psd g nucRate Rnuc). Qed.
Print Assumptions C07_sum_corrected.

(* growth moves particles only to the adjacent larger class, dissolution only to the adjacent
   smaller one: the flux through face k is fed by class k-1 when g_k > 0 and by class k when g_k < 0 *)
Theorem C07_upwind_local bounds psd g k : wf bounds psd g -> (k <= length psd)%nat ->
  nthR (netFlux Rops bounds psd g) k =
    if Rlt_dec 0 (nthR g k)
    then (if (0 <? k)%nat then nthR g k * nthR psd (k - 1) / dR bounds (k - 1) else 0)
    else (if (k <? length psd)%nat then nthR g k * nthR psd k / dR bounds k else 0).
Proof. exact (upwind_local bounds psd g k). Qed.
Print Assumptions C07_upwind_local.

(* each entry of dXdt is the difference of its two face fluxes (plus nucleation in one class) *)
Theorem C07_dXdt_entry bounds psd g nucRate Rnuc j : wf bounds psd g -> (j < length psd)%nat ->
  nthR (getdXdt Rops bounds psd g nucRate Rnuc) j =
    face bounds psd g j - face bounds psd g (S j) + (if Nat.eqb j (nRad Rops bounds Rnuc) then nucRate else 0).
Proof. exact (dXdt_entry bounds psd g nucRate Rnuc j). Qed.
Print Assumptions C07_dXdt_entry.

(* nothing enters through the lower end, nothing enters through the upper end *)
Theorem C07_boundary_signs bounds psd g : wf bounds psd g -> incr bounds -> nonneg psd ->
  nthR (netFlux Rops bounds psd g) 0 <= 0 <= nthR (netFlux Rops bounds psd g) (length psd).
Proof. exact (boundary_signs bounds psd g). Qed.
Print Assumptions C07_boundary_signs.

(* nuclei enter only the class that contains the nucleation radius *)
Theorem C07_nucleation_class bounds Rnuc k : incr bounds -> (S k < length bounds)%nat ->
  nthR bounds k <= Rnuc < nthR bounds (S k) -> nRad Rops bounds Rnuc = k.
Proof. exact (nRad_inside bounds Rnuc k). Qed.
Print Assumptions C07_nucleation_class.

Theorem C07_nucleation_only_class bounds psd g nucRate Rnuc j : wf bounds psd g -> (j < length psd)%nat ->
  (nRad Rops bounds Rnuc < length psd)%nat /\
  nthR (getdXdt Rops bounds psd g nucRate Rnuc) j =
    nthR (getdXdt Rops bounds psd g 0 Rnuc) j + (if Nat.eqb j (nRad Rops bounds Rnuc) then nucRate else 0).
Proof. exact (nucleation_only_class bounds psd g nucRate Rnuc j). Qed.
Print Assumptions C07_nucleation_only_class.

(* radius at or above the grid: last class *)
Theorem C07_nucleation_above bounds Rnuc : (2 <= length bounds)%nat ->
  (forall k, (k < length bounds)%nat -> nthR bounds k <= Rnuc) ->
  nRad Rops bounds Rnuc = (length bounds - 2)%nat.
Proof. exact (nRad_above bounds Rnuc). Qed.
Print Assumptions C07_nucleation_above.

(* radius below the grid: first class (nearest) *)
Theorem C07_nucleation_below bounds Rnuc : incr bounds -> (2 <= length bounds)%nat ->
  Rnuc < nthR bounds 0 -> nRad Rops bounds Rnuc = 0%nat.
Proof. exact (nRad_below bounds Rnuc). Qed.
Print Assumptions C07_nucleation_below.

(* after the correction no class loses through one face more particles than it holds *)
Theorem C07_limiter_faces dt nf psd k : length nf = S (length psd) -> 0 < dt -> nonneg psd ->
  (k < length psd)%nat ->
  - nthR psd k <= nthR (correctFlux Rops dt nf psd) k * dt /\
  nthR (correctFlux Rops dt nf psd) (S k) * dt <= nthR psd k.
Proof. exact (limiter_faces dt nf psd k). Qed.
Print Assumptions C07_limiter_faces.

(* when no class would lose more than it holds the corrector changes nothing; no face is ever
   reversed or amplified *)
Theorem C07_limiter_minimal dt nf psd : length nf = S (length psd) -> 0 < dt -> nonneg psd ->
  (forall i, (i < length psd)%nat -> outflowR dt nf i <= nthR psd i) ->
  forall k, (k <= length psd)%nat -> nthR (correctFlux Rops dt nf psd) k = nthR nf k.
Proof. exact (limiter_minimal dt nf psd). Qed.
Print Assumptions C07_limiter_minimal.

Theorem C07_limiter_shrinks dt nf psd k : length nf = S (length psd) -> (k <= length psd)%nat ->
  0 < dt -> nonneg psd ->
  (0 <= nthR nf k -> 0 <= nthR (correctFlux Rops dt nf psd) k <= nthR nf k) /\
  (nthR nf k <= 0 -> nthR nf k <= nthR (correctFlux Rops dt nf psd) k <= 0).
Proof. exact (limiter_shrinks dt nf psd k). Qed.
Print Assumptions C07_limiter_shrinks.

(* after the correction the total leaving a class through both faces is at most what it holds, so
   NO class becomes negative in a step (since kawin commit "fix: limit the total outflow of a size
   class"), in particular: *)
Theorem C07_class_nonneg dt bounds psd g nucRate Rnuc k :
  wf bounds psd g -> nonneg psd -> 0 < dt -> 0 <= nucRate -> (k < length psd)%nat ->
  0 <= nthR psd k + dt * nthR (correctdXdt Rops dt bounds psd g nucRate Rnuc) k.
Proof. exact (class_nonneg dt bounds psd g nucRate Rnuc k). Qed.
Print Assumptions C07_class_nonneg.

(* classes that obey the step limit (ratio r <= 1/2 on both faces) never become negative *)
Theorem C07_cfl_nonneg dt r bounds psd g nucRate Rnuc k :
  wf bounds psd g -> incr bounds -> nonneg psd -> 0 < dt -> 0 <= r <= 1/2 -> 0 <= nucRate ->
  (k < length psd)%nat ->
  dt * Rabs (nthR g k) / dR bounds k <= r ->
  dt * Rabs (nthR g (S k)) / dR bounds k <= r ->
  0 <= nthR psd k + dt * nthR (correctdXdt Rops dt bounds psd g nucRate Rnuc) k.
Proof. exact (cfl_nonneg dt r bounds psd g nucRate Rnuc k). Qed.
Print Assumptions C07_cfl_nonneg.

(* the step limit is maxRatio * first class width / fastest growth rate among populated classes
   at or above the dissolution index; otherwise the current step is kept *)
Theorem C07_dt_formula currDT bounds psd g d maxRatio :
  length g = S (length psd) ->
  let dt := getDT Rops currDT bounds psd g d maxRatio in
  ( (forall k, relevant psd d k -> nthR g k = 0) /\ dt = currDT ) \/
  ( exists m, 0 < m /\ dt = maxRatio * (nthR bounds 1 - nthR bounds 0) / m /\
      (forall k, relevant psd d k -> Rabs (nthR g k) <= m) /\
      (exists k, relevant psd d k /\ Rabs (nthR g k) = m) ).
Proof. exact (getDT_spec currDT bounds psd g d maxRatio). Qed.
Print Assumptions C07_dt_formula.

(* the dissolution index: first class whose cumulative third moment exceeds the allowed fraction of
   the total (0 if none), but at least the supplied minimum index *)
Theorem C07_dissolution_index sz psd maxDiss minIndex :
  let cum := cumMomentFromN Rops sz psd 3 in
  let frac := maxDiss * momentFromN Rops sz psd 3 in
  exists i, dissolutionIndex Rops sz psd maxDiss minIndex = Nat.max i minIndex /\
    (forall j, (j < i)%nat -> (j < length cum)%nat -> nthR cum j <= frac) /\
    ((exists k, (k < length cum)%nat /\ frac < nthR cum k) -> (i < length cum)%nat /\ frac < nthR cum i) /\
    ((forall k, (k < length cum)%nat -> nthR cum k <= frac) -> i = 0%nat).
Proof. exact (dissolutionIndex_spec sz psd maxDiss minIndex). Qed.
Print Assumptions C07_dissolution_index.

(* The executable (exact-rational) instance used by the correspondence check computes the value of
   the real-number model on rational inputs (class widths non-zero): *)
From Coq Require Import QArith Qreals.
Require Import Kawin.C07.Hom.
Theorem C07_exec_is_real_model b p g nr rn :
  Forall (fun z => ~ (z == 0)%Q) (diffs Qops b) ->
  map Q2R (getdXdt Qops b p g nr rn) = getdXdt Rops (map Q2R b) (map Q2R p) (map Q2R g) (Q2R nr) (Q2R rn).
Proof. exact (getdXdt_hom b p g nr rn). Qed.
Print Assumptions C07_exec_is_real_model.

Theorem C07_exec_is_real_model_corrected dt b p g nr rn :
  Forall (fun z => ~ (z == 0)%Q) (diffs Qops b) -> ~ (dt == 0)%Q -> Forall (fun x => (0 <= x)%Q) p ->
  map Q2R (correctdXdt Qops dt b p g nr rn) =
    correctdXdt Rops (Q2R dt) (map Q2R b) (map Q2R p) (map Q2R g) (Q2R nr) (Q2R rn).
Proof. exact (correctdXdt_hom dt b p g nr rn). Qed.
Print Assumptions C07_exec_is_real_model_corrected.
