(* C07 - lemmas about the real-number instance of the transport kernels. *)
From Coq Require Import Reals List Bool ZArith Arith Lia Lra Psatz.
Require Import Kawin.Common.Ops Kawin.Common.Vec Kawin.Common.VecLemmas Kawin.C07.Model.
Import ListNotations.
Open Scope R_scope.

(* lengths of lists at type [T Rops] and at type [R] must be identified before lia sees them *)
Tactic Notation "lia" := (cbn [T Rops] in *; Lia.lia).
Tactic Notation "lra" := (cbn [T Rops] in *; Lra.lra).
Tactic Notation "nra" := (cbn [T Rops] in *; Lra.nra).

Notation nthR l k := (nth k l 0).

(* ---- well-formed inputs: bins >= 1, len(bounds) = len(growth) = bins + 1 ------------- *)
Definition wf (bounds psd g : list R) : Prop :=
  (1 <= length psd)%nat /\ length bounds = S (length psd) /\ length g = S (length psd).

(* class boundaries strictly increasing *)
Definition incr (l : list R) : Prop :=
  forall i j, (i < j < length l)%nat -> nthR l i < nthR l j.

Definition nonneg (l : list R) : Prop := forall k, 0 <= nthR l k.

Lemma nonneg_Forall l : Forall (fun x => 0 <= x) l -> nonneg l.
Proof.
  intros H k. revert k. induction H as [|x l Hx Hl IH]; intros [|k]; simpl; try lra; auto.
Qed.

(* ---- shape lemmas -------------------------------------------------------------------- *)
Lemma zip3_length {A B C D} (f : A -> B -> C -> D) a b c :
  length (zip3 f a b c) = Nat.min (length a) (Nat.min (length b) (length c)).
Proof. revert b c; induction a as [|x a IH]; intros [|y b] [|z c]; simpl; auto. Qed.

Lemma nth_zip3 {A B C D} (f : A -> B -> C -> D) a b c k d da db dc :
  (k < length a)%nat -> (k < length b)%nat -> (k < length c)%nat ->
  nth k (zip3 f a b c) d = f (nth k a da) (nth k b db) (nth k c dc).
Proof.
  revert b c k; induction a as [|x a IH]; intros [|y b] [|z c] [|k] H1 H2 H3; simpl in *; try lia; auto.
  apply IH; lia.
Qed.

Definition dR (bounds : list R) (k : nat) : R := nthR bounds (S k) - nthR bounds k.

Lemma dR_pos bounds k : incr bounds -> (S k < length bounds)%nat -> 0 < dR bounds k.
Proof. intros Hi Hk. unfold dR. specialize (Hi k (S k) ltac:(lia)). lra. Qed.

(* ---- face-by-face description of netFlux ---------------------------------------------- *)
Definition face (bounds psd g : list R) (k : nat) : R :=
  (if (k <? length psd)%nat then leftTerm Rops (nthR g k) (nthR psd k) (dR bounds k) else 0) +
  (if (0 <? k)%nat then rightTerm Rops (nthR g k) (nthR psd (k - 1)) (dR bounds (k - 1)) else 0).

Lemma netFlux_length bounds psd g : wf bounds psd g ->
  length (netFlux Rops bounds psd g) = S (length psd).
Proof.
  intros (Hn & Hb & Hg). unfold netFlux. rewrite zipWith_length, app_length. cbn [length].
  rewrite !zip3_length. unfold init_, tail_. rewrite removelast_length, tl_length, diffs_length. Rnorm. lia.
Qed.

Lemma netFlux_nth bounds psd g k : wf bounds psd g -> (k <= length psd)%nat ->
  nthR (netFlux Rops bounds psd g) k = face bounds psd g k.
Proof.
  intros (Hn & Hb & Hg) Hk. unfold netFlux, face.
  set (n := length psd) in *.
  assert (HL : length (zip3 (leftTerm Rops) (init_ g) psd (diffs Rops bounds)) = n).
  { rewrite zip3_length. unfold init_. rewrite removelast_length, diffs_length. lia. }
  assert (HR : length (zip3 (rightTerm Rops) (tail_ g) psd (diffs Rops bounds)) = n).
  { rewrite zip3_length. unfold tail_. rewrite tl_length, diffs_length. lia. }
  rewrite (nth_zipWith _ _ _ _ _ 0 0); [| rewrite app_length; simpl; lia | simpl; lia].
  Rnorm. f_equal.
  - destruct (Nat.ltb_spec k n) as [Hlt|Hge].
    + rewrite app_nth1 by lia.
      rewrite (nth_zip3 _ _ _ _ _ _ 0 0 0);
        [| unfold init_; rewrite removelast_length; lia | lia | rewrite diffs_length; lia].
      unfold init_. rewrite nth_removelast by lia. rewrite nth_diffs by lia. reflexivity.
    + rewrite app_nth2 by lia. replace (k - _)%nat with 0%nat by lia. reflexivity.
  - destruct k as [|k]; [reflexivity|].
    change (0 <? S k)%nat with true. cbn iota. simpl nth at 1.
    rewrite (nth_zip3 _ _ _ _ _ _ 0 0 0);
      [| unfold tail_; rewrite tl_length; lia | lia | rewrite diffs_length; lia].
    unfold tail_. rewrite nth_tl, nth_diffs by lia.
    replace (S k - 1)%nat with k by lia. reflexivity.
Qed.

(* ---- upwind: what crosses face k ------------------------------------------------------ *)
Lemma upwind_local bounds psd g k : wf bounds psd g -> (k <= length psd)%nat ->
  nthR (netFlux Rops bounds psd g) k =
    if Rlt_dec 0 (nthR g k)
    then (if (0 <? k)%nat then nthR g k * nthR psd (k - 1) / dR bounds (k - 1) else 0)
    else (if (k <? length psd)%nat then nthR g k * nthR psd k / dR bounds k else 0).
Proof.
  intros Hwf Hk. rewrite netFlux_nth by assumption. unfold face, leftTerm, rightTerm, fluxSign.
  Rnorm. unfold Rltb.
  destruct (Rlt_dec 0 (nthR g k)); destruct (k <? length psd)%nat; destruct (0 <? k)%nat;
    unfold Rdiv; ring.
Qed.

Lemma boundary_signs bounds psd g : wf bounds psd g -> incr bounds -> nonneg psd ->
  nthR (netFlux Rops bounds psd g) 0 <= 0 <= nthR (netFlux Rops bounds psd g) (length psd).
Proof.
  intros Hwf Hi Hp. pose proof Hwf as (Hn & Hb & Hg). split.
  - rewrite upwind_local by (auto; lia). destruct (Rlt_dec 0 (nthR g 0)) as [|Hg0]; simpl; [lra|].
    destruct (0 <? length psd)%nat; [|lra].
    pose proof (dR_pos bounds 0 Hi ltac:(lia)) as Hd. pose proof (Hp 0%nat) as Hp0.
    assert (0 <= / dR bounds 0) by (left; apply Rinv_0_lt_compat; lra).
    unfold Rdiv. assert (nthR g 0 * nthR psd 0 <= 0) by nra. nra.
  - rewrite upwind_local by (auto; lia). destruct (Rlt_dec 0 (nthR g (length psd))) as [Hg0|].
    + destruct (0 <? length psd)%nat; [|lra].
      pose proof (dR_pos bounds (length psd - 1) Hi ltac:(lia)) as Hd.
      pose proof (Hp (length psd - 1)%nat) as Hp0.
      assert (0 <= / dR bounds (length psd - 1)) by (left; apply Rinv_0_lt_compat; lra).
      unfold Rdiv. assert (0 <= nthR g (length psd) * nthR psd (length psd - 1)) by nra. nra.
    + rewrite Nat.ltb_irrefl. lra.
Qed.

(* ---- nucleation class ----------------------------------------------------------------- *)
Lemma count_split {A} (P : A -> bool) (l : list A) (d : A) m : (m <= length l)%nat ->
  (forall j, (j < m)%nat -> P (nth j l d) = true) ->
  (forall j, (m <= j < length l)%nat -> P (nth j l d) = false) ->
  length (filter P l) = m.
Proof.
  revert m; induction l as [|a l IH]; intros m Hm H1 H2; simpl in *.
  - Lia.lia.
  - destruct m as [|m].
    + rewrite (H2 0%nat) by Lia.lia. apply IH; [Lia.lia | intros; Lia.lia |].
      intros j Hj. apply (H2 (S j)). Lia.lia.
    + rewrite (H1 0%nat) by Lia.lia. simpl. f_equal. apply IH; [Lia.lia | |].
      * intros j Hj. apply (H1 (S j)). Lia.lia.
      * intros j Hj. apply (H2 (S j)). Lia.lia.
Qed.

Lemma searchsorted_inside bounds Rnuc k : incr bounds -> (S k < length bounds)%nat ->
  nthR bounds k <= Rnuc < nthR bounds (S k) -> searchsorted_right Rops bounds Rnuc = S k.
Proof.
  intros Hi Hk [H1 H2]. unfold searchsorted_right. apply (count_split _ _ 0); [lia| |].
  - intros j Hj. Rnorm. apply Rleb_true.
    destruct (Nat.eq_dec j k) as [->|Hne]; [exact H1|]. specialize (Hi j k ltac:(lia)). lra.
  - intros j Hj. Rnorm. apply Rleb_false.
    destruct (Nat.eq_dec j (S k)) as [->|Hne]; [exact H2|]. specialize (Hi (S k) j ltac:(lia)). lra.
Qed.

Lemma nRad_inside bounds Rnuc k : incr bounds -> (S k < length bounds)%nat ->
  nthR bounds k <= Rnuc < nthR bounds (S k) -> nRad Rops bounds Rnuc = k.
Proof.
  intros Hi Hk H. unfold nRad. rewrite (searchsorted_inside bounds Rnuc k) by assumption. lia.
Qed.

(* nucleation radius at or above the last boundary: last class *)
Lemma nRad_above bounds Rnuc : (2 <= length bounds)%nat ->
  (forall k, (k < length bounds)%nat -> nthR bounds k <= Rnuc) ->
  nRad Rops bounds Rnuc = (length bounds - 2)%nat.
Proof.
  intros Hl H. unfold nRad, searchsorted_right.
  rewrite (count_split _ bounds 0 (length bounds)); [lia | lia | | intros; lia].
  intros j Hj. Rnorm. apply Rleb_true. apply H. exact Hj.
Qed.

(* nucleation radius below the first boundary: first class *)
Lemma nRad_below bounds Rnuc : incr bounds -> (2 <= length bounds)%nat -> Rnuc < nthR bounds 0 ->
  nRad Rops bounds Rnuc = 0%nat.
Proof.
  intros Hi Hl H. unfold nRad, searchsorted_right.
  rewrite (count_split _ bounds 0 0%nat); [lia | lia | intros; lia |].
  intros j Hj. Rnorm. apply Rleb_false.
  destruct j as [|j]; [exact H|]. specialize (Hi 0%nat (S j) ltac:(lia)). lra.
Qed.

Lemma nRad_in_range bounds Rnuc : (2 <= length bounds)%nat ->
  (nRad Rops bounds Rnuc < length bounds - 1)%nat.
Proof. intros Hl. unfold nRad. lia. Qed.

(* ---- conservation: interior exchange cancels ------------------------------------------ *)
Lemma dXdt_of_length nf bounds nucRate Rnuc :
  length (dXdt_of Rops nf bounds nucRate Rnuc) = (length nf - 1)%nat.
Proof.
  unfold dXdt_of. rewrite add_at_length.
  rewrite zipWith_length; unfold init_, tail_; rewrite removelast_length, tl_length; lia.
Qed.

Lemma sum_dXdt_of nf bounds nucRate Rnuc :
  length nf = length bounds -> (2 <= length bounds)%nat ->
  sumR (dXdt_of Rops nf bounds nucRate Rnuc) = nucRate + hd 0 nf - last nf 0.
Proof.
  intros Hl Hb. unfold dXdt_of.
  pose proof (nRad_in_range bounds Rnuc Hb) as Hk.
  rewrite sum_add_at.
  - Rnorm. rewrite sum_telescope; [lra|]. destruct nf; simpl in *; [lia|discriminate].
  - rewrite zipWith_length. unfold init_, tail_. rewrite removelast_length, tl_length. lia.
Qed.

Lemma dXdt_of_nth nf bounds nucRate Rnuc j : length nf = length bounds ->
  (2 <= length bounds)%nat -> (j < length bounds - 1)%nat ->
  nthR (dXdt_of Rops nf bounds nucRate Rnuc) j =
    nthR nf j - nthR nf (S j) + (if Nat.eqb j (nRad Rops bounds Rnuc) then nucRate else 0).
Proof.
  intros Hl Hb Hj. pose proof (nRad_in_range bounds Rnuc Hb) as Hk.
  set (k := nRad Rops bounds Rnuc) in *. unfold dXdt_of. fold k. rewrite nth_add_at.
  rewrite zipWith_length. unfold init_, tail_. rewrite removelast_length, tl_length.
  rewrite (nth_zipWith _ _ _ _ _ 0 0) by (rewrite ?removelast_length, ?tl_length; lia).
  rewrite nth_removelast, nth_tl by lia. Rnorm.
  destruct (Nat.eqb_spec j k) as [->|]; simpl.
  - destruct (Nat.ltb_spec k (Nat.min (length nf - 1) (length nf - 1))); [lra|lia].
  - lra.
Qed.

(* ---- step-size corrector -------------------------------------------------------------- *)
Definition lim1 (dt f p : R) : R := if Rltb (f * dt) (0 - p) then (0 - p) / dt else f.
Definition lim2 (dt f p : R) : R := if Rltb p (f * dt) then p / dt else f.

Definition cface (dt : R) (nf psd : list R) (k : nat) : R :=
  let f1 := if (k <? length psd)%nat then lim1 dt (nthR nf k) (nthR psd k) else nthR nf k in
  if (0 <? k)%nat then lim2 dt f1 (nthR psd (k - 1)) else f1.

Lemma limitBelow_length dt nf psd : length nf = S (length psd) ->
  length (limitBelow Rops dt nf psd) = S (length psd).
Proof.
  intros H. unfold limitBelow. rewrite app_length, zipWith_length. unfold init_.
  rewrite removelast_length. simpl. lia.
Qed.

Lemma limitBelow_nth dt nf psd k : length nf = S (length psd) -> (k <= length psd)%nat ->
  nthR (limitBelow Rops dt nf psd) k =
    if (k <? length psd)%nat then lim1 dt (nthR nf k) (nthR psd k) else nthR nf k.
Proof.
  intros H Hk. unfold limitBelow.
  assert (HL : length (zipWith (fun f p => if ltb Rops (mul Rops f dt) (negT Rops p)
                 then dvd Rops (negT Rops p) dt else f) (init_ nf) psd) = length psd).
  { rewrite zipWith_length. unfold init_. rewrite removelast_length. lia. }
  destruct (Nat.ltb_spec k (length psd)) as [Hlt|Hge].
  - rewrite app_nth1 by lia.
    rewrite (nth_zipWith _ _ _ _ _ 0 0) by (unfold init_; rewrite ?removelast_length; lia).
    unfold init_. rewrite nth_removelast by lia. reflexivity.
  - rewrite app_nth2 by lia. replace (k - _)%nat with 0%nat by lia. simpl.
    rewrite last_nth. f_equal. lia.
Qed.

(* the first two stages of the corrector (per-face limits) *)
Definition correctFlux2 (dt : R) (nf psd : list R) : list R := limitAbove Rops dt (limitBelow Rops dt nf psd) psd.

Lemma correctFlux_length2 dt nf psd : length nf = S (length psd) ->
  length (correctFlux2 dt nf psd) = S (length psd).
Proof.
  intros H. unfold correctFlux2, limitAbove. simpl. rewrite zipWith_length. unfold tail_.
  rewrite tl_length, limitBelow_length by assumption. lia.
Qed.

Lemma correctFlux_nth2 dt nf psd k : length nf = S (length psd) -> (k <= length psd)%nat ->
  nthR (correctFlux2 dt nf psd) k = cface dt nf psd k.
Proof.
  intros H Hk. unfold correctFlux2, limitAbove, cface.
  pose proof (limitBelow_length dt nf psd H) as HL.
  destruct k as [|k].
  - simpl nth. rewrite hd_nth. rewrite limitBelow_nth by (auto; lia). reflexivity.
  - change (0 <? S k)%nat with true. cbn iota. simpl nth at 1.
    rewrite (nth_zipWith _ _ _ _ _ 0 0) by (unfold tail_; rewrite ?tl_length; lia).
    unfold tail_. rewrite nth_tl. rewrite limitBelow_nth by (auto; lia).
    replace (S k - 1)%nat with k by lia. reflexivity.
Qed.

Lemma lim1_ge dt f p : 0 < dt -> - p <= lim1 dt f p * dt.
Proof.
  intros Hdt. unfold lim1. destruct (Rltb (f * dt) (0 - p)) eqn:E; Rbool.
  - unfold Rdiv. rewrite Rmult_assoc, Rinv_l by lra. lra.
  - lra.
Qed.

Lemma lim2_le dt f p : 0 < dt -> lim2 dt f p * dt <= p.
Proof.
  intros Hdt. unfold lim2. destruct (Rltb p (f * dt)) eqn:E; Rbool.
  - unfold Rdiv. rewrite Rmult_assoc, Rinv_l by lra. lra.
  - lra.
Qed.

Lemma lim2_ge dt f p lo : 0 < dt -> 0 <= p -> lo <= 0 -> lo <= f * dt -> lo <= lim2 dt f p * dt.
Proof.
  intros Hdt Hp Hlo H. unfold lim2. destruct (Rltb p (f * dt)) eqn:E; Rbool.
  - unfold Rdiv. rewrite Rmult_assoc, Rinv_l by lra. lra.
  - lra.
Qed.

(* after the correction no class loses more than it holds through either face *)
Lemma limiter_faces2 dt nf psd k : length nf = S (length psd) -> 0 < dt -> nonneg psd ->
  (k < length psd)%nat ->
  - nthR psd k <= nthR (correctFlux2 dt nf psd) k * dt /\
  nthR (correctFlux2 dt nf psd) (S k) * dt <= nthR psd k.
Proof.
  intros H Hdt Hp Hk. rewrite !correctFlux_nth2 by (auto; lia). unfold cface. split.
  - destruct (Nat.ltb_spec k (length psd)); [|lia].
    destruct (Nat.ltb_spec 0 k).
    + apply lim2_ge; auto. pose proof (Hp k); lra. apply lim1_ge; auto.
    + apply lim1_ge; auto.
  - change (0 <? S k)%nat with true. cbn iota. replace (S k - 1)%nat with k by lia.
    apply lim2_le; auto.
Qed.

(* faces already within both bounds are left unchanged *)
Lemma limiter_minimal2 dt nf psd k : length nf = S (length psd) -> (k <= length psd)%nat ->
  ((k < length psd)%nat -> - nthR psd k <= nthR nf k * dt) ->
  ((0 < k)%nat -> nthR nf k * dt <= nthR psd (k - 1)) ->
  nthR (correctFlux2 dt nf psd) k = nthR nf k.
Proof.
  intros H Hk H1 H2. rewrite correctFlux_nth2 by auto. unfold cface.
  assert (E1 : (if (k <? length psd)%nat then lim1 dt (nthR nf k) (nthR psd k) else nthR nf k) = nthR nf k).
  { destruct (Nat.ltb_spec k (length psd)); auto. unfold lim1.
    destruct (Rltb _ _) eqn:E; auto. Rbool. specialize (H1 ltac:(lia)). lra. }
  rewrite E1. destruct (Nat.ltb_spec 0 k); auto. unfold lim2.
  destruct (Rltb _ _) eqn:E; auto. Rbool. specialize (H2 ltac:(lia)). lra.
Qed.

(* the corrector never reverses a face flux and never increases its magnitude *)
Lemma limiter_shrinks2 dt nf psd k : length nf = S (length psd) -> (k <= length psd)%nat ->
  0 < dt -> nonneg psd ->
  (0 <= nthR nf k -> 0 <= nthR (correctFlux2 dt nf psd) k <= nthR nf k) /\
  (nthR nf k <= 0 -> nthR nf k <= nthR (correctFlux2 dt nf psd) k <= 0).
Proof.
  intros H Hk Hdt Hp. rewrite correctFlux_nth2 by auto. unfold cface.
  set (f := nthR nf k).
  assert (Hinv : 0 < / dt) by (apply Rinv_0_lt_compat; lra).
  assert (L1 : forall p, 0 <= p -> (0 <= f -> lim1 dt f p = f) /\ (f <= 0 -> f <= lim1 dt f p <= 0)).
  { intros p Hp0. unfold lim1. destruct (Rltb (f * dt) (0 - p)) eqn:E; Rbool.
    - split; intros Hf; [nra|]. unfold Rdiv. split; [|nra].
      assert (f * dt * / dt < (0 - p) * / dt) by (apply Rmult_lt_compat_r; lra).
      rewrite Rmult_assoc, Rinv_r in H0 by lra. lra.
    - split; intros; lra. }
  assert (L2 : forall x p, 0 <= p -> (0 <= x -> 0 <= lim2 dt x p <= x) /\ (x <= 0 -> lim2 dt x p = x)).
  { intros x p Hp0. unfold lim2. destruct (Rltb p (x * dt)) eqn:E; Rbool.
    - split; intros Hx; [|nra]. unfold Rdiv. split; [nra|].
      assert (p * / dt < x * dt * / dt) by (apply Rmult_lt_compat_r; lra).
      rewrite Rmult_assoc, Rinv_r in H0 by lra. lra.
    - split; intros; lra. }
  destruct (Nat.ltb_spec k (length psd)); destruct (Nat.ltb_spec 0 k).
  - destruct (L1 (nthR psd k) (Hp k)) as [A B].
    split; intros Hf.
    + rewrite A by auto. apply L2; auto.
    + specialize (B Hf). destruct (L2 (lim1 dt f (nthR psd k)) (nthR psd (k-1)) (Hp _)) as [_ C].
      rewrite C; lra.
  - destruct (L1 (nthR psd k) (Hp k)) as [A B]. split; intros Hf; [rewrite A; lra | auto].
  - destruct (L2 f (nthR psd (k-1)) (Hp _)) as [A B]. split; intros Hf; [auto | rewrite B; lra].
  - split; intros; lra.
Qed.


(* ---- third stage: class-wise limit ------------------------------------------------------ *)
Definition posR (x : R) : R := if Rltb x 0 then 0 else x.      (* maximum(x, 0) *)
Lemma maxT_0 x : maxT Rops x (zero Rops) = posR x.
Proof. unfold maxT, posR. Rnorm. reflexivity. Qed.
Lemma posR_nonneg x : 0 <= posR x.
Proof. unfold posR. destruct (Rltb x 0) eqn:E; Rbool; lra. Qed.
Lemma posR_ge x : x <= posR x.
Proof. unfold posR. destruct (Rltb x 0) eqn:E; Rbool; lra. Qed.
Lemma posR_pos x : 0 <= x -> posR x = x.
Proof. intros H. unfold posR. destruct (Rltb x 0) eqn:E; Rbool; lra. Qed.
Lemma posR_neg x : x <= 0 -> posR x = 0.
Proof. intros H. unfold posR. destruct (Rltb x 0) eqn:E; Rbool; lra. Qed.

(* total leaving class i within dt, and the scale applied to its two outgoing fluxes *)
Definition outflowR (dt : R) (nf : list R) (i : nat) : R := (posR (- nthR nf i) + posR (nthR nf (S i))) * dt.
Definition cscale (dt : R) (nf psd : list R) (i : nat) : R :=
  if Rltb (nthR psd i) (outflowR dt nf i) then nthR psd i / outflowR dt nf i else 1.

Lemma cscale_range dt nf psd i : nonneg psd -> 0 <= cscale dt nf psd i <= 1.
Proof.
  intros Hp. unfold cscale. pose proof (Hp i) as Hi.
  destruct (Rltb (nthR psd i) (outflowR dt nf i)) eqn:E; Rbool; [|lra].
  set (o := outflowR dt nf i) in *. assert (0 < o) by lra. assert (0 < / o) by (apply Rinv_0_lt_compat; lra).
  unfold Rdiv. split; [nra|].
  assert (nthR psd i * / o <= o * / o) by (apply Rmult_le_compat_r; lra).
  rewrite Rinv_r in H1 by lra. lra.
Qed.

Lemma cscale_out dt nf psd i : nonneg psd -> outflowR dt nf i * cscale dt nf psd i <= nthR psd i.
Proof.
  intros Hp. unfold cscale. pose proof (Hp i) as Hi.
  destruct (Rltb (nthR psd i) (outflowR dt nf i)) eqn:E; Rbool; [|lra].
  set (o := outflowR dt nf i) in *. assert (0 < o) by lra.
  unfold Rdiv. replace (o * (nthR psd i * / o)) with (nthR psd i * (o * / o)) by ring.
  rewrite Rinv_r by lra. lra.
Qed.

Lemma scaleOf_length dt nf psd : length nf = S (length psd) ->
  length (scaleOf Rops dt nf psd) = length psd.
Proof.
  intros H. unfold scaleOf. rewrite zip3_length. unfold init_, tail_. rewrite removelast_length, tl_length. lia.
Qed.

Lemma scaleOf_nth dt nf psd i : length nf = S (length psd) -> (i < length psd)%nat ->
  nthR (scaleOf Rops dt nf psd) i = cscale dt nf psd i.
Proof.
  intros H Hi. unfold scaleOf.
  rewrite (nth_zip3 _ _ _ _ _ _ 0 0 0) by (unfold init_, tail_; rewrite ?removelast_length, ?tl_length; lia).
  unfold init_, tail_. rewrite nth_removelast by lia. rewrite nth_tl.
  unfold cscale, outflowR, outflowOf. rewrite !maxT_0. unfold negT. Rnorm.
  replace (0 - nthR nf i) with (- nthR nf i) by ring. reflexivity.
Qed.

Definition c3face (dt : R) (nf psd : list R) (k : nat) : R :=
  let f := nthR nf k in
  if ((k <? length psd)%nat && Rltb f 0)%bool then f * cscale dt nf psd k
  else if ((0 <? k)%nat && Rltb 0 f)%bool then f * cscale dt nf psd (k - 1)
  else f.

Lemma limitClass_length dt nf psd : length nf = S (length psd) ->
  length (limitClass Rops dt nf psd) = S (length psd).
Proof.
  intros H. unfold limitClass. cbn [length]. rewrite zipWith_length. unfold tail_.
  rewrite tl_length, app_length, zipWith_length, scaleOf_length by exact H. unfold init_.
  rewrite removelast_length. cbn [length]. lia.
Qed.

Lemma limitClass_nth dt nf psd k : length nf = S (length psd) -> (k <= length psd)%nat -> nonneg psd ->
  nthR (limitClass Rops dt nf psd) k = c3face dt nf psd k.
Proof.
  intros H Hk Hp. unfold limitClass.
  set (sc := scaleOf Rops dt nf psd).
  set (nf1 := zipWith _ (init_ nf) sc ++ [last nf (zero Rops)]).
  assert (Hsc : length sc = length psd) by (apply scaleOf_length; exact H).
  assert (HL1 : length (zipWith (fun f s => if ltb Rops f (zero Rops) then mul Rops f s else f) (init_ nf) sc) = length psd).
  { rewrite zipWith_length. unfold init_. rewrite removelast_length. lia. }
  assert (N1 : forall j, (j <= length psd)%nat ->
             nthR nf1 j = if ((j <? length psd)%nat && Rltb (nthR nf j) 0)%bool then nthR nf j * cscale dt nf psd j else nthR nf j).
  { intros j Hj. unfold nf1. destruct (Nat.ltb_spec j (length psd)) as [Hlt|Hge].
    - rewrite app_nth1 by lia.
      rewrite (nth_zipWith _ _ _ _ _ 0 0) by (unfold init_; rewrite ?removelast_length; lia).
      unfold init_. rewrite nth_removelast by lia. unfold sc. rewrite scaleOf_nth by (auto; lia).
      Rnorm. cbn [andb]. reflexivity.
    - rewrite app_nth2 by lia. replace (j - _)%nat with 0%nat by lia. cbn [andb nth].
      rewrite last_nth. f_equal. lia. }
  unfold c3face. destruct k as [|k].
  - cbn [nth]. rewrite hd_nth. rewrite N1 by lia. cbn [Nat.ltb Nat.leb andb].
    destruct ((0 <? length psd)%nat && Rltb (nthR nf 0) 0)%bool; reflexivity.
  - cbn [nth]. rewrite (nth_zipWith _ _ _ _ _ 0 0);
      [| unfold tail_; rewrite tl_length; unfold nf1; rewrite app_length; cbn [length]; lia | lia].
    unfold tail_. rewrite nth_tl. rewrite N1 by lia. unfold sc. rewrite scaleOf_nth by (auto; lia).
    change (0 <? S k)%nat with true. replace (S k - 1)%nat with k by lia. Rnorm. cbn [andb].
    set (f := nthR nf (S k)).
    destruct ((S k <? length psd)%nat && Rltb f 0)%bool eqn:E1.
    + apply andb_true_iff in E1. destruct E1 as [_ E1]. Rbool.
      pose proof (cscale_range dt nf psd (S k) Hp) as [Hs0 Hs1].
      destruct (Rltb 0 (f * cscale dt nf psd (S k))) eqn:E2; Rbool; [nra|reflexivity].
    + destruct (Rltb 0 f) eqn:E3; reflexivity.
Qed.

Lemma c3face_shrinks dt nf psd k : nonneg psd ->
  (0 <= nthR nf k -> 0 <= c3face dt nf psd k <= nthR nf k) /\
  (nthR nf k <= 0 -> nthR nf k <= c3face dt nf psd k <= 0).
Proof.
  intros Hp. unfold c3face. set (f := nthR nf k).
  pose proof (cscale_range dt nf psd k Hp) as [A0 A1].
  pose proof (cscale_range dt nf psd (k - 1) Hp) as [B0 B1].
  destruct ((k <? length psd)%nat && Rltb f 0)%bool eqn:E1.
  - apply andb_true_iff in E1. destruct E1 as [_ E1]. Rbool. split; intros; nra.
  - destruct ((0 <? k)%nat && Rltb 0 f)%bool eqn:E2.
    + apply andb_true_iff in E2. destruct E2 as [_ E2]. Rbool. split; intros; nra.
    + split; intros; lra.
Qed.

(* ---- the full corrector ----------------------------------------------------------------- *)
Lemma correctFlux_eq dt nf psd : correctFlux Rops dt nf psd = limitClass Rops dt (correctFlux2 dt nf psd) psd.
Proof. reflexivity. Qed.

Lemma correctFlux_length dt nf psd : length nf = S (length psd) ->
  length (correctFlux Rops dt nf psd) = S (length psd).
Proof. intros H. rewrite correctFlux_eq. apply limitClass_length. apply correctFlux_length2. exact H. Qed.

Lemma correctFlux_nth dt nf psd k : length nf = S (length psd) -> (k <= length psd)%nat -> nonneg psd ->
  nthR (correctFlux Rops dt nf psd) k = c3face dt (correctFlux2 dt nf psd) psd k.
Proof.
  intros H Hk Hp. rewrite correctFlux_eq. apply limitClass_nth; auto. apply correctFlux_length2. exact H.
Qed.

(* after the correction no class loses through one face more particles than it holds *)
Lemma limiter_faces dt nf psd k : length nf = S (length psd) -> 0 < dt -> nonneg psd ->
  (k < length psd)%nat ->
  - nthR psd k <= nthR (correctFlux Rops dt nf psd) k * dt /\
  nthR (correctFlux Rops dt nf psd) (S k) * dt <= nthR psd k.
Proof.
  intros H Hdt Hp Hk. rewrite !correctFlux_nth by (auto; lia).
  destruct (limiter_faces2 dt nf psd k H Hdt Hp Hk) as [A B].
  destruct (c3face_shrinks dt (correctFlux2 dt nf psd) psd k Hp) as [S1 S2].
  destruct (c3face_shrinks dt (correctFlux2 dt nf psd) psd (S k) Hp) as [T1 T2].
  pose proof (Hp k) as Hpk. split.
  - destruct (Rle_dec 0 (nthR (correctFlux2 dt nf psd) k)) as [Hs|Hs].
    + specialize (S1 Hs). nra.
    + assert (Hs' : nthR (correctFlux2 dt nf psd) k <= 0) by lra. specialize (S2 Hs'). nra.
  - destruct (Rle_dec 0 (nthR (correctFlux2 dt nf psd) (S k))) as [Hs|Hs].
    + specialize (T1 Hs). nra.
    + assert (Hs' : nthR (correctFlux2 dt nf psd) (S k) <= 0) by lra. specialize (T2 Hs'). nra.
Qed.

(* the corrector never reverses a face flux and never increases its magnitude *)
Lemma limiter_shrinks dt nf psd k : length nf = S (length psd) -> (k <= length psd)%nat ->
  0 < dt -> nonneg psd ->
  (0 <= nthR nf k -> 0 <= nthR (correctFlux Rops dt nf psd) k <= nthR nf k) /\
  (nthR nf k <= 0 -> nthR nf k <= nthR (correctFlux Rops dt nf psd) k <= 0).
Proof.
  intros H Hk Hdt Hp. rewrite correctFlux_nth by auto.
  destruct (limiter_shrinks2 dt nf psd k H Hk Hdt Hp) as [A B].
  destruct (c3face_shrinks dt (correctFlux2 dt nf psd) psd k Hp) as [S1 S2].
  split; intros Hf.
  - specialize (A Hf). destruct A as [A1 A2]. specialize (S1 A1). lra.
  - specialize (B Hf). destruct B as [B1 B2]. specialize (S2 B2). lra.
Qed.

(* NO class becomes negative, whatever the growth field and step: the total leaving class k is at
   most what it holds *)
Lemma class_outflow_bound dt nf psd k : length nf = S (length psd) -> 0 < dt -> nonneg psd ->
  (k < length psd)%nat ->
  0 <= nthR psd k + dt * (nthR (correctFlux Rops dt nf psd) k - nthR (correctFlux Rops dt nf psd) (S k)).
Proof.
  intros H Hdt Hp Hk. rewrite !correctFlux_nth by (auto; lia).
  set (nf2 := correctFlux2 dt nf psd).
  pose proof (cscale_range dt nf2 psd k Hp) as [Hs0 Hs1].
  pose proof (cscale_out dt nf2 psd k Hp) as Ho. unfold outflowR in Ho.
  set (s := cscale dt nf2 psd k) in *.
  set (a := posR (- nthR nf2 k)) in *. set (b := posR (nthR nf2 (S k))) in *.
  assert (Ha : 0 <= a) by apply posR_nonneg. assert (Hb : 0 <= b) by apply posR_nonneg.
  (* left face of class k *)
  assert (L : - (a * s) <= c3face dt nf2 psd k).
  { unfold c3face. destruct (Nat.ltb_spec k (length psd)); [|lia]. cbn [andb].
    destruct (Rltb (nthR nf2 k) 0) eqn:E; Rbool.
    - fold s. unfold a. rewrite posR_pos by lra. lra.
    - unfold a. rewrite posR_neg by lra.
      pose proof (cscale_range dt nf2 psd (k - 1) Hp) as [C0 C1].
      destruct ((0 <? k)%nat && Rltb 0 (nthR nf2 k))%bool; nra. }
  (* right face of class k *)
  assert (Rr : c3face dt nf2 psd (S k) <= b * s).
  { unfold c3face. change (0 <? S k)%nat with true. replace (S k - 1)%nat with k by lia. cbn [andb]. fold s.
    pose proof (cscale_range dt nf2 psd (S k) Hp) as [C0 C1].
    destruct (Rltb (nthR nf2 (S k)) 0) eqn:E; Rbool.
    - unfold b. rewrite posR_neg by lra.
      destruct ((S k <? length psd)%nat); cbn [andb].
      + nra.
      + destruct (Rltb 0 (nthR nf2 (S k))) eqn:E2; Rbool; lra.
    - rewrite andb_false_r. unfold b. rewrite posR_pos by lra.
      destruct (Rltb 0 (nthR nf2 (S k))) eqn:E2; Rbool; [lra|].
      assert (nthR nf2 (S k) = 0) by lra. nra. }
  nra.
Qed.

(* when no class would lose more than it holds, the corrector changes nothing *)
Lemma limiter_minimal dt nf psd : length nf = S (length psd) -> 0 < dt -> nonneg psd ->
  (forall i, (i < length psd)%nat -> outflowR dt nf i <= nthR psd i) ->
  forall k, (k <= length psd)%nat -> nthR (correctFlux Rops dt nf psd) k = nthR nf k.
Proof.
  intros H Hdt Hp Hall.
  assert (E2 : forall k, (k <= length psd)%nat -> nthR (correctFlux2 dt nf psd) k = nthR nf k).
  { intros k Hk. apply limiter_minimal2; auto.
    - intros Hlt. specialize (Hall k Hlt). unfold outflowR in Hall.
      pose proof (posR_ge (- nthR nf k)). pose proof (posR_nonneg (nthR nf (S k))). nra.
    - intros Hpos. specialize (Hall (k - 1)%nat ltac:(lia)). unfold outflowR in Hall.
      replace (S (k - 1)) with k in Hall by lia.
      pose proof (posR_ge (nthR nf k)). pose proof (posR_nonneg (- nthR nf (k - 1))). nra. }
  assert (Eo : forall i, (i < length psd)%nat -> cscale dt (correctFlux2 dt nf psd) psd i = 1).
  { intros i Hi. unfold cscale, outflowR. rewrite !E2 by lia. specialize (Hall i Hi). unfold outflowR in Hall.
    destruct (Rltb _ _) eqn:E; Rbool; [lra|reflexivity]. }
  intros k Hk. rewrite correctFlux_nth by auto. unfold c3face. rewrite E2 by exact Hk.
  destruct (Nat.ltb_spec k (length psd)); destruct (Nat.ltb_spec 0 k); cbn [andb];
    repeat match goal with |- context [if Rltb ?a ?b then _ else _] => destruct (Rltb a b) end;
    rewrite ?Eo by lia; lra.
Qed.

(* ---- CFL: classes that obey the step limit stay non-negative - now a corollary: every class does *)
Lemma class_nonneg dt bounds psd g nucRate Rnuc k :
  wf bounds psd g -> nonneg psd -> 0 < dt -> 0 <= nucRate -> (k < length psd)%nat ->
  0 <= nthR psd k + dt * nthR (correctdXdt Rops dt bounds psd g nucRate Rnuc) k.
Proof.
  intros Hwf Hp Hdt Hnuc Hk. pose proof Hwf as (Hn & Hb & Hg). unfold correctdXdt.
  pose proof (netFlux_length bounds psd g Hwf) as HL.
  rewrite dXdt_of_nth by (rewrite ?correctFlux_length; auto; lia).
  pose proof (class_outflow_bound dt (netFlux Rops bounds psd g) psd k HL Hdt Hp Hk) as Hc.
  destruct (Nat.eqb k _); nra.
Qed.

Lemma cfl_nonneg dt r bounds psd g nucRate Rnuc k :
  wf bounds psd g -> incr bounds -> nonneg psd -> 0 < dt -> 0 <= r <= 1/2 -> 0 <= nucRate ->
  (k < length psd)%nat ->
  dt * Rabs (nthR g k) / dR bounds k <= r ->
  dt * Rabs (nthR g (S k)) / dR bounds k <= r ->
  0 <= nthR psd k + dt * nthR (correctdXdt Rops dt bounds psd g nucRate Rnuc) k.
Proof. intros Hwf _ Hp Hdt _ Hnuc Hk _ _. apply class_nonneg; assumption. Qed.

(* ---- step limit ----------------------------------------------------------------------- *)
Lemma amax_ge x l : x <= amax Rops x l /\ Forall (fun y => y <= amax Rops x l) l.
Proof.
  revert x; induction l as [|y l IH]; intros x; simpl.
  - split; [lra|constructor].
  - destruct (IH (maxT Rops x y)) as [A B]. unfold maxT in *. Rnorm.
    destruct (Rltb x y) eqn:E; Rbool.
    + split; [lra|]. constructor; auto.
    + split; [auto|]. constructor; auto. lra.
Qed.

Lemma amax_in x l : amax Rops x l = x \/ In (amax Rops x l) l.
Proof.
  revert x; induction l as [|y l IH]; intros x; simpl; auto.
  destruct (IH (maxT Rops x y)) as [A|A]; auto.
  rewrite A. unfold maxT. Rnorm. destruct (Rltb x y); auto.
Qed.

(* indices that enter the step limit: classes at or above the dissolution index holding particles *)
Definition relevant (psd : list R) (d k : nat) : Prop :=
  (d <= k < length psd)%nat /\ 0 < nthR psd k.

Lemma growthFilter_in g psd d x : length g = S (length psd) ->
  In x (growthFilter Rops g psd d) <-> exists k, relevant psd d k /\ x = nthR g k.
Proof.
  intros Hg. unfold growthFilter. rewrite in_map_iff. split.
  - intros ((a & b) & Ex & Hin). simpl in Ex. subst a. apply filter_In in Hin.
    destruct Hin as [Hin Hb]. simpl in Hb. Rnorm. Rbool.
    apply (In_nth _ _ (0, 0)) in Hin. destruct Hin as (j & Hj & Ej).
    rewrite combine_length, !skipn_length in Hj. unfold init_ in *. rewrite removelast_length in Hj.
    rewrite combine_nth in Ej by (rewrite !skipn_length, removelast_length; lia).
    inversion Ej as [[E1 E2]]. rewrite !nth_skipn in *.
    rewrite nth_removelast in E1 by lia.
    exists (d + j)%nat. split; [split; [lia|]|]; congruence.
  - intros (k & ((Hk1 & Hk2) & Hpos) & ->).
    exists (nthR g k, nthR psd k). split; [reflexivity|]. apply filter_In. split.
    + assert (E : nth (k - d) (combine (skipn d (init_ g)) (skipn d psd)) (0, 0) = (nthR g k, nthR psd k)).
      { rewrite combine_nth by (unfold init_; rewrite !skipn_length, removelast_length; lia).
        rewrite !nth_skipn. replace (d + (k - d))%nat with k by lia.
        unfold init_. rewrite nth_removelast by lia. reflexivity. }
      rewrite <- E. apply nth_In.
      rewrite combine_length, !skipn_length. unfold init_. rewrite removelast_length. lia.
    + simpl. Rnorm. apply Rltb_true. exact Hpos.
Qed.

Lemma getDT_spec currDT bounds psd g d maxRatio :
  length g = S (length psd) ->
  let dt := getDT Rops currDT bounds psd g d maxRatio in
  ( (* no populated class above the dissolution index, or none of them moves: keep the step *)
    (forall k, relevant psd d k -> nthR g k = 0) /\ dt = currDT ) \/
  ( exists m, 0 < m /\ dt = maxRatio * (nthR bounds 1 - nthR bounds 0) / m /\
      (forall k, relevant psd d k -> Rabs (nthR g k) <= m) /\
      (exists k, relevant psd d k /\ Rabs (nthR g k) = m) ).
Proof.
  intros Hg dt. subst dt. unfold getDT.
  destruct (map (absT Rops) (growthFilter Rops g psd d)) as [|a r] eqn:E.
  - left. split; auto. intros k Hk.
    assert (In (nthR g k) (growthFilter Rops g psd d)) by (apply growthFilter_in; eauto).
    destruct (growthFilter Rops g psd d); [contradiction|discriminate].
  - assert (Habs : forall x, absT Rops x = Rabs x).
    { intros x. unfold absT. Rnorm. destruct (Rltb x 0) eqn:Ex; Rbool.
      - rewrite Rabs_left by lra. lra.
      - rewrite Rabs_right by lra. reflexivity. }
    assert (Hall : forall k, relevant psd d k -> In (Rabs (nthR g k)) (a :: r)).
    { intros k Hk. rewrite <- E, <- Habs. apply in_map. apply growthFilter_in; eauto. }
    assert (Hex : forall y, In y (a :: r) -> exists k, relevant psd d k /\ Rabs (nthR g k) = y).
    { intros y Hy. rewrite <- E in Hy. apply in_map_iff in Hy. destruct Hy as (x & Hx & Hin).
      apply growthFilter_in in Hin; auto. destruct Hin as (k & Hk & ->). exists k. rewrite <- Habs. auto. }
    destruct (amax_ge a r) as [Ma Mr]. rewrite Forall_forall in Mr.
    assert (Hle : forall y, In y (a :: r) -> y <= amax Rops a r).
    { intros y [<-|Hy]; auto. }
    Rnorm. destruct (Reqb (amax Rops a r) 0) eqn:E0; Rbool.
    + left. split; auto. intros k Hk. specialize (Hle _ (Hall k Hk)).
      pose proof (Rabs_pos (nthR g k)). assert (Rabs (nthR g k) = 0) by lra.
      destruct (Req_dec (nthR g k) 0); auto. apply Rabs_no_R0 in H1. contradiction.
    + right. exists (amax Rops a r).
      assert (Hin : In (amax Rops a r) (a :: r)) by (destruct (amax_in a r) as [->|]; [left|right]; auto).
      destruct (Hex _ Hin) as (k0 & Hk0 & Ek0).
      split; [|split; [|split]].
      * pose proof (Rabs_pos (nthR g k0)). lra.
      * unfold nthT. reflexivity.
      * intros k Hk. apply Hle, Hall, Hk.
      * exists k0. auto.
Qed.

(* ---- totals ---------------------------------------------------------------------------- *)
Lemma sum_getdXdt bounds psd g nucRate Rnuc : wf bounds psd g ->
  sumR (getdXdt Rops bounds psd g nucRate Rnuc) =
    nucRate + nthR (netFlux Rops bounds psd g) 0 - nthR (netFlux Rops bounds psd g) (length psd).
Proof.
  intros Hwf. pose proof Hwf as (Hn & Hb & Hg). unfold getdXdt.
  pose proof (netFlux_length bounds psd g Hwf) as HL.
  rewrite sum_dXdt_of by lia. rewrite hd_nth, last_nth, HL. f_equal. f_equal. lia.
Qed.

Lemma sum_correctdXdt dt bounds psd g nucRate Rnuc : wf bounds psd g ->
  sumR (correctdXdt Rops dt bounds psd g nucRate Rnuc) =
    nucRate + nthR (correctFlux Rops dt (netFlux Rops bounds psd g) psd) 0
            - nthR (correctFlux Rops dt (netFlux Rops bounds psd g) psd) (length psd).
Proof.
  intros Hwf. pose proof Hwf as (Hn & Hb & Hg). unfold correctdXdt.
  pose proof (netFlux_length bounds psd g Hwf) as HL.
  pose proof (correctFlux_length dt _ psd HL) as HL'.
  set (nf' := correctFlux Rops dt (netFlux Rops bounds psd g) psd) in *.
  rewrite sum_dXdt_of by lia. rewrite hd_nth, last_nth. rewrite HL'. f_equal. f_equal. lia.
Qed.

(* nuclei enter exactly one class, every other entry of dXdt is pure transport *)
Lemma nucleation_only_class bounds psd g nucRate Rnuc j : wf bounds psd g -> (j < length psd)%nat ->
  (nRad Rops bounds Rnuc < length psd)%nat /\
  nthR (getdXdt Rops bounds psd g nucRate Rnuc) j =
    nthR (getdXdt Rops bounds psd g 0 Rnuc) j + (if Nat.eqb j (nRad Rops bounds Rnuc) then nucRate else 0).
Proof.
  intros Hwf Hj. pose proof Hwf as (Hn & Hb & Hg).
  pose proof (netFlux_length bounds psd g Hwf) as HL.
  pose proof (nRad_in_range bounds Rnuc ltac:(lia)) as Hk.
  split; [lia|]. unfold getdXdt.
  rewrite !dXdt_of_nth by (auto; lia). destruct (Nat.eqb j _); lra.
Qed.

(* dXdt_j depends on the populations of classes j-1, j, j+1 only (adjacent exchange) *)
Lemma dXdt_entry bounds psd g nucRate Rnuc j : wf bounds psd g -> (j < length psd)%nat ->
  nthR (getdXdt Rops bounds psd g nucRate Rnuc) j =
    face bounds psd g j - face bounds psd g (S j) + (if Nat.eqb j (nRad Rops bounds Rnuc) then nucRate else 0).
Proof.
  intros Hwf Hj. pose proof Hwf as (Hn & Hb & Hg).
  pose proof (netFlux_length bounds psd g Hwf) as HL. unfold getdXdt.
  rewrite dXdt_of_nth by (auto; lia). rewrite !netFlux_nth by (auto; lia). reflexivity.
Qed.

(* ---- dissolution index ------------------------------------------------------------------ *)
(* getDissolutionIndex: the first class at which the cumulative third moment exceeds
   maxDissolution * total third moment (0 when none does), but at least minIndex *)
Lemma dissolutionIndex_spec sz psd maxDiss minIndex :
  let cum := cumMomentFromN Rops sz psd 3 in
  let frac := maxDiss * momentFromN Rops sz psd 3 in
  exists i, dissolutionIndex Rops sz psd maxDiss minIndex = Nat.max i minIndex /\
    (forall j, (j < i)%nat -> (j < length cum)%nat -> nthR cum j <= frac) /\
    ((exists k, (k < length cum)%nat /\ frac < nthR cum k) -> (i < length cum)%nat /\ frac < nthR cum i) /\
    ((forall k, (k < length cum)%nat -> nthR cum k <= frac) -> i = 0%nat).
Proof.
  intros cum frac. unfold dissolutionIndex. fold cum. Rnorm. fold frac.
  set (mask := map (fun c => Rltb frac c) cum).
  assert (Hn : forall j, (j < length cum)%nat -> nth j mask false = Rltb frac (nthR cum j)).
  { intros j Hj. unfold mask. rewrite (nth_indep _ false (Rltb frac 0)) by (rewrite map_length; lia).
    rewrite (map_nth (fun c => Rltb frac c)). reflexivity. }
  exists (argmax_first mask). split; [reflexivity|]. unfold argmax_first.
  destruct (find_first mask) as [i|] eqn:E.
  - apply find_first_spec in E. destruct E as (Hi & Ht & Hf). unfold mask in Hi. rewrite map_length in Hi.
    repeat split.
    + intros j Hj Hjl. specialize (Hf j Hj). rewrite Hn in Hf by lia. Rbool. lra.
    + exact Hi.
    + rewrite Hn in Ht by lia. Rbool. lra.
    + intros Hall. destruct i as [|i]; [reflexivity|]. exfalso.
      rewrite Hn in Ht by lia. Rbool. specialize (Hall (S i) Hi). lra.
  - pose proof (proj1 (find_first_none mask) E) as Hnone. unfold mask in Hnone at 1. rewrite map_length in Hnone.
    repeat split.
    + intros j Hj. lia.
    + destruct H as (k & Hk & Hlt). specialize (Hnone k Hk). rewrite Hn in Hnone by lia. Rbool. lra.
    + destruct H as (k & Hk & Hlt). specialize (Hnone k Hk). rewrite Hn in Hnone by lia. Rbool. lra.
Qed.
