(* C01 - Precipitation conserves solute between matrix and precipitates.
   ONLY the property theorems (real instance of coq/C01/Model.v = KWNEuler._calcMassBalance). *)
From Coq Require Import Reals List Arith Bool.
Require Import Kawin.Common.Ops Kawin.Common.Vec Kawin.Common.VecLemmas Kawin.C07.Model Kawin.C01.Model Kawin.C01.Proofs.
Open Scope R_scope.

(* For every solute e: initial content = matrix content * matrix fraction + solute held in the
   precipitates, the latter being k_p * sum_i N_i R_i^3 * (mean interfacial precipitate composition of
   class i) summed over the phases that hold at least minNucleateDensity particles; any number of
   phases, solutes and size classes.  When the unclamped matrix composition is negative the recorded
   one is the documented clamp value. *)
Theorem C01_conservation minDens minComp x0 prev ps e :
  wfElems (length x0) ps ->
  Forall (fun p => regular minDens p \/ absent minDens p) ps ->
  (e < length x0)%nat ->
  let present := filter (fun p => negb (Rltb (M0 p) minDens)) ps in
  totalVol present < 1 ->
  let comp := snd (massBalance Rops minDens minComp x0 prev ps) in
  let raw := (nthR x0 e - totalSolute present e) / (1 - totalVol present) in
  (0 <= raw -> nthR x0 e = nthR comp e * (1 - totalVol present) + totalSolute present e) /\
  (raw < 0 -> nthR comp e = minComp).
Proof. exact (conservation minDens minComp x0 prev ps e). Qed.
Print Assumptions C01_conservation.

(* what is recorded for a phase are the sums over its size distribution *)
Theorem C01_recorded_are_sums minDens p : regular minDens p ->
  let o := phaseBalance Rops minDens p in
  dens Rops o = M0 p /\ ravg Rops o = M1 p / M0 p /\ fv Rops o = precVol p /\
  (forall e, (e < nElems Rops p)%nat -> nthR (fconc Rops o) e = precSolute p e).
Proof. exact (phaseBalance_regular minDens p). Qed.
Print Assumptions C01_recorded_are_sums.

Theorem C01_absent_phase minDens p : absent minDens p ->
  let o := phaseBalance Rops minDens p in
  dens Rops o = M0 p /\ ravg Rops o = 0 /\ fv Rops o = 0 /\ (forall e, nthR (fconc Rops o) e = 0).
Proof. exact (phaseBalance_absent minDens p). Qed.
Print Assumptions C01_absent_phase.

(* the volume a sub-threshold phase is not credited with is at most density * Rmax^3 *)
Theorem C01_absent_bound (N sz : list R) Rmax : Forall (fun x => 0 <= x) N ->
  Forall (fun r => 0 <= r <= Rmax) sz ->
  momentFromN Rops sz N 3 <= momentFromN Rops sz N 0 * Rmax ^ 3.
Proof. exact (absent_bound N sz Rmax). Qed.
Print Assumptions C01_absent_bound.

Theorem C01_fraction_bounds minDens p : 0 <= precVol p ->
  0 <= fv Rops (phaseBalance Rops minDens p) <= 1.
Proof. exact (fv_bounds minDens p). Qed.
Print Assumptions C01_fraction_bounds.

(* total fraction >= 1: the recorded composition is the previous one (no balance is taken) *)
Theorem C01_saturated_keeps_previous minComp x0 prev outs :
  1 <= sumFv Rops outs -> matrixComp Rops minComp x0 prev outs = prev.
Proof. exact (matrixComp_saturated minComp x0 prev outs). Qed.
Print Assumptions C01_saturated_keeps_previous.

(* every step of every run, runs split over any number of solve segments *)
Theorem C01_trajectory_conserves minDens minComp x0 (segments : list (list step_in)) :
  Forall (Forall (admissible minDens x0)) segments ->
  Forall (conserved minDens minComp x0) (concat segments).
Proof. exact (trajectory_conserves minDens minComp x0 segments). Qed.
Print Assumptions C01_trajectory_conserves.
