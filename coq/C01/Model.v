(* C01 - faithful model of KWNEuler.PrecipitateModel._calcMassBalance (kawin/precipitation/
   KWNEuler.py:412-479): per-phase statistics of the supplied distribution and the matrix
   composition obtained from the solute balance.  Executable definitions only. *)
From Coq Require Import List Bool ZArith Arith.
Require Import Kawin.Common.Ops Kawin.Common.Vec Kawin.C07.Model.
Import ListNotations.

Section C01.
Variable O : Ops.
Notation t := (T O).

(* what _calcMassBalance reads for one precipitate phase *)
Record phase_in := mkPhaseIn {
  volRatio : t;            (* matrixParameters.volume.Vm / precParams.volume.Vm *)
  volFactor : t;           (* precParams.nucleation.volumeFactor *)
  Nx : list t;             (* x[p]: the distribution the balance is taken over (bins) *)
  size : list t;           (* PBM[p].PSDsize (bins) *)
  xbeta : list (list t);   (* PSDXbeta[p]: bins+1 rows, one entry per solute *)
  prevFull : bool;         (* pData.volFrac[n,p] == 1 *)
  infinite : bool;         (* precParams.infinitePrecipitateDiffusion *)
  prevFconc : list t;      (* pData.fconc[n,p,:]  (used when not infinite) *)
  curPSD : list t          (* PBM[p].PSD          (used when not infinite) *)
}.

(* what it writes for one phase *)
Record phase_out := mkPhaseOut {
  dens : t; ravg : t; fv : t; fconc : list t }.

Definition zerosLike {A} (l : list A) : list t := map (fun _ => zero O) l.

(* column e of a table *)
Definition column (tab : list (list t)) (e : nat) : list t := map (fun row => nthT O row e) tab.

(* 0.5 * (tab[:-1] + tab[1:]) for column e *)
Definition compAvg (tab : list (list t)) (e : nat) : list t := mids O (column tab e).

(* WeightedMomentFromN(N, order, w) = sum(N * size^order * w) *)
Definition weightedMoment (sz N w : list t) (order : nat) : t :=
  sumT O (zipWith (mul O) (zipWith (fun n r => mul O n (powT O r order)) N sz) w).

Definition nElems (p : phase_in) : nat :=
  match xbeta p with [] => length (prevFconc p) | row :: _ => length row end.

Definition phaseBalance (minDens : t) (p : phase_in) : phase_out :=
  let d := momentFromN O (size p) (Nx p) 0 in
  let ne := nElems p in
  if ltb O d minDens then
    mkPhaseOut d (zero O) (zero O) (map (fun _ => zero O) (seq 0 ne))
  else
    let k := mul O (volRatio p) (volFactor p) in
    let f0 := minT O (mul O k (momentFromN O (size p) (Nx p) 3)) (one O) in
    let f := if prevFull p then one O else f0 in
    let fc :=
      if infinite p then
        map (fun e => mul O k (weightedMoment (size p) (Nx p) (compAvg (xbeta p) e) 3)) (seq 0 ne)
      else
        map (fun e =>
               add O (nthT O (prevFconc p) e)
                 (mul O k (sumT O (zipWith (mul O)
                    (zipWith (mul O) (map (fun r => powT O r 3) (size p))
                                     (zipWith (sub O) (Nx p) (curPSD p)))
                    (compAvg (xbeta p) e)))))
            (seq 0 ne) in
    mkPhaseOut d (dvd O (momentFromN O (size p) (Nx p) 1) d) f fc.

(* sum over phases of one solute's fconc *)
Definition sumFconc (outs : list phase_out) (e : nat) : t :=
  sumT O (map (fun o => nthT O (fconc o) e) outs).
Definition sumFv (outs : list phase_out) : t := sumT O (map fv outs).

(* the matrix composition: only updated when the total fraction is below one *)
Definition matrixComp (minComp : t) (x0 prevComp : list t) (outs : list phase_out) : list t :=
  let ftot := sumFv outs in
  if ltb O ftot (one O) then
    map (fun e =>
           let c := dvd O (sub O (nthT O x0 e) (sumFconc outs e)) (sub O (one O) ftot) in
           if ltb O c (zero O) then minComp else c)
        (seq 0 (length x0))
  else prevComp.

Definition massBalance (minDens minComp : t) (x0 prevComp : list t) (phases : list phase_in)
  : list phase_out * list t :=
  let outs := map (phaseBalance minDens) phases in
  (outs, matrixComp minComp x0 prevComp outs).

End C01.
