(* C01 - correspondence driver: model of _calcMassBalance on exact rationals vs the values the
   implementation produced for the same inputs; comparison inside Coq, verdicts only. *)
From Coq Require Import QArith List ZArith Bool.
Require Import Kawin.Common.Ops Kawin.Common.Vec Kawin.Common.Out Kawin.C07.Model Kawin.C01.Model.
Import ListNotations.
Open Scope Q_scope.

Definition absl (l : list Q) := map qabs l.
Definition qsum (l : list Q) : Q := fold_right (fun a b => Qred (a + b)) 0 l.

(* magnitudes of the sums taken for one phase (for the comparison tolerance) *)
Definition phaseScale (p : phase_in Qops) : Q * Q * Q * list Q :=
  let k := qabs (volRatio Qops p * volFactor Qops p) in
  let sz := absl (size Qops p) in
  let n := absl (Nx Qops p) in
  let s0 := momentFromN Qops sz n 0 in
  let s1 := momentFromN Qops sz n 1 in
  let s3 := Qred (k * momentFromN Qops sz n 3) in
  let ne := nElems Qops p in
  let sc := map (fun e =>
     if infinite Qops p then Qred (k * weightedMoment Qops sz n (absl (compAvg Qops (xbeta Qops p) e)) 3)
     else Qred (qabs (nthT Qops (prevFconc Qops p) e) +
           k * weightedMoment Qops sz (zipWith (fun a b => Qred (qabs a + qabs b)) (Nx Qops p) (curPSD Qops p))
                 (absl (compAvg Qops (xbeta Qops p) e)) 3)) (seq 0 ne) in
  (s0, s1, s3, sc).

Record impl_phase := { ip_dens : Q; ip_ravg : Q; ip_fv : Q; ip_fconc : list Q }.

(* per phase: (density, mean radius, fraction, fconc, density-threshold tie?) *)
Definition cmp_phase (rt minDens : Q) (p : phase_in Qops) (o : phase_out Qops) (im : impl_phase) :=
  let '(s0, s1, s3, sc) := phaseScale p in
  let d := dens Qops o in
  let tie := near_tie (rt * 64) d minDens in
  let ravg_scale := if Qeq_bool d 0 then 1 else Qred ((s1 / qabs d) * (1 + s0 / qabs d)) in
  (cmpl rt [ip_dens im] [d] [s0],
   if tie then None else cmpl (rt * 4) [ip_ravg im] [ravg Qops o] [ravg_scale],
   if tie then None else cmpl (rt * 4) [ip_fv im] [fv Qops o] [qmax s3 (qabs (fv Qops o))],
   if tie then None else cmpl (rt * 4) (ip_fconc im) (fconc Qops o) sc,
   tie).

Fixpoint map3 {A B C D} (f : A -> B -> C -> D) (a : list A) (b : list B) (c : list C) : list D :=
  match a, b, c with
  | x :: a', y :: b', z :: c' => f x y z :: map3 f a' b' c'
  | _, _, _ => []
  end.

(* full check: per-phase verdicts, composition verdict, indeterminate flags *)
Definition check01 (rt minDens minComp : Q) (x0 prev : list Q) (phases : list (phase_in Qops))
                   (iph : list impl_phase) (icomp : list Q) :=
  let r := massBalance Qops minDens minComp x0 prev phases in
  let outs := fst r in
  let comp := snd r in
  let pv := map3 (cmp_phase rt minDens) phases outs iph in
  let anytie := existsb (fun v => snd v) pv in
  let ftot := sumFv Qops outs in
  let sat_tie := near_tie (rt * 64) ftot 1 in
  (* scale of each composition entry *)
  let sfv := qsum (map (fun p => let '(_, _, s3, _) := phaseScale p in s3) phases) in
  let den := qabs (Qred (1 - ftot)) in
  let cscale := map (fun e =>
      let sfc := qsum (map (fun p => let '(_, _, _, sc) := phaseScale p in nthT Qops sc e) phases) in
      if Qeq_bool den 0 then 1
      else Qred ((qabs (nthT Qops x0 e) + sfc) / den + qabs (nthT Qops comp e) * (1 + sfv / den))) (seq 0 (length x0)) in
  (* a raw composition within tolerance of zero makes the clamp decision indeterminate *)
  let raw := map (fun e => Qred ((nthT Qops x0 e - sumFconc Qops outs e) / (1 - ftot))) (seq 0 (length x0)) in
  let clamp_tie := Qle_bool ftot 1 && existsb (fun rs => closeb (rt * 64) (fst rs) 0 (snd rs) && negb (Qeq_bool (fst rs) 0)) (combine raw cscale) in
  (pv, (anytie || sat_tie || clamp_tie)%bool,
   if (anytie || sat_tie || clamp_tie)%bool then None else cmpl (rt * 16) icomp comp cscale,
   Qle_bool 1 ftot).
