(* C01 - lemmas about the real instance of the mass-balance model. *)
From Coq Require Import Reals List Bool ZArith Arith Lia Lra Psatz.
Require Import Kawin.Common.Ops Kawin.Common.Vec Kawin.Common.VecLemmas Kawin.C07.Model Kawin.C01.Model.
Import ListNotations.
Open Scope R_scope.

Tactic Notation "lia" := (cbn [T Rops] in *; Lia.lia).
Tactic Notation "lra" := (cbn [T Rops] in *; Lra.lra).
Tactic Notation "nra" := (cbn [T Rops] in *; Lra.nra).

Notation nthR l k := (nth k l 0).
Notation phase := (phase_in Rops).

(* ---- the quantities of the property, written directly over the size distribution -------- *)
(* particle volume per unit volume held by phase p:  k * sum_i N_i R_i^3 *)
Definition kfac (p : phase) : R := volRatio Rops p * volFactor Rops p.
Definition M3 (p : phase) : R := momentFromN Rops (size Rops p) (Nx Rops p) 3.
Definition M0 (p : phase) : R := momentFromN Rops (size Rops p) (Nx Rops p) 0.
Definition M1 (p : phase) : R := momentFromN Rops (size Rops p) (Nx Rops p) 1.
Definition precVol (p : phase) : R := kfac p * M3 p.
(* solute e held by phase p: k * sum_i N_i R_i^3 * mean interfacial precipitate composition of class i *)
Definition precSolute (p : phase) (e : nat) : R :=
  kfac p * weightedMoment Rops (size Rops p) (Nx Rops p) (compAvg Rops (xbeta Rops p) e) 3.

(* phase takes part in the balance with its unclamped values *)
Definition regular (minDens : R) (p : phase) : Prop :=
  infinite Rops p = true /\ prevFull Rops p = false /\ minDens <= M0 p /\ precVol p <= 1.
(* phase is treated as absent: fewer than minNucleateDensity particles *)
Definition absent (minDens : R) (p : phase) : Prop := M0 p < minDens.

Lemma nth_map_seq {A} (f : nat -> A) n e d : (e < n)%nat -> nth e (map f (seq 0 n)) d = f e.
Proof.
  intros H. rewrite (nth_indep _ d (f 0%nat)) by (rewrite map_length, seq_length; lia).
  rewrite map_nth. rewrite seq_nth by lia. reflexivity.
Qed.

Lemma phaseBalance_regular minDens p : regular minDens p ->
  let o := phaseBalance Rops minDens p in
  dens Rops o = M0 p /\ ravg Rops o = M1 p / M0 p /\ fv Rops o = precVol p /\
  (forall e, (e < nElems Rops p)%nat -> nthR (fconc Rops o) e = precSolute p e).
Proof.
  intros (Hi & Hf & Hd & Hv) o. subst o. unfold phaseBalance.
  fold (M0 p). Rnorm.
  destruct (Rltb (M0 p) minDens) eqn:E; Rbool; [lra|].
  rewrite Hi, Hf. cbn [dens ravg fv fconc]. repeat split.
  - unfold minT. Rnorm. fold (M3 p). fold (kfac p). fold (precVol p).
    destruct (Rltb 1 (precVol p)) eqn:E1; Rbool; lra.
  - intros e He. unfold nthT. Rnorm. rewrite nth_map_seq by exact He. reflexivity.
Qed.

Lemma phaseBalance_absent minDens p : absent minDens p ->
  let o := phaseBalance Rops minDens p in
  dens Rops o = M0 p /\ ravg Rops o = 0 /\ fv Rops o = 0 /\
  (forall e, nthR (fconc Rops o) e = 0).
Proof.
  intros Ha o. subst o. unfold phaseBalance, absent in *. fold (M0 p). Rnorm.
  destruct (Rltb (M0 p) minDens) eqn:E; Rbool; [|lra].
  cbn [dens ravg fv fconc]. repeat split. intros e.
  destruct (Nat.lt_ge_cases e (nElems Rops p)).
  - rewrite nth_map_seq by assumption. reflexivity.
  - rewrite nth_overflow; [reflexivity|]. rewrite map_length, seq_length. lia.
Qed.

(* every recorded fraction lies in [0,1] when the third moment is non-negative *)
Lemma fv_bounds minDens p : 0 <= precVol p ->
  0 <= fv Rops (phaseBalance Rops minDens p) <= 1.
Proof.
  intros Hv. unfold phaseBalance. fold (M0 p). Rnorm.
  destruct (Rltb (M0 p) minDens); cbn [fv]; [lra|].
  destruct (prevFull Rops p); [lra|]. unfold minT. Rnorm. fold (M3 p) (kfac p) (precVol p).
  destruct (Rltb 1 (precVol p)) eqn:E1; Rbool; lra.
Qed.

(* ---- the balance ------------------------------------------------------------------------ *)
Definition totalVol (ps : list phase) : R := sumR (map precVol ps).
Definition totalSolute (ps : list phase) (e : nat) : R := sumR (map (fun p => precSolute p e) ps).

Definition wfElems (ne : nat) (ps : list phase) : Prop := Forall (fun p => nElems Rops p = ne) ps.

Lemma sums_regular minDens ps ne : wfElems ne ps -> Forall (regular minDens) ps ->
  sumFv Rops (map (phaseBalance Rops minDens) ps) = totalVol ps /\
  forall e, (e < ne)%nat -> sumFconc Rops (map (phaseBalance Rops minDens) ps) e = totalSolute ps e.
Proof.
  intros Hw Hr. induction ps as [|p ps IH].
  - split; [reflexivity|intros; reflexivity].
  - inversion Hw as [|? ? Hp Hw']; subst. inversion Hr as [|? ? Rp Hr']; subst.
    destruct (IH Hw' Hr') as [IH1 IH2].
    destruct (phaseBalance_regular minDens p Rp) as (_ & _ & Hfv & Hfc).
    unfold sumFv, sumFconc, totalVol, totalSolute in *. simpl. Rnorm. split.
    + rewrite Hfv, IH1. reflexivity.
    + intros e He. unfold nthT in *. Rnorm. rewrite Hfc by lia. rewrite IH2 by exact He. reflexivity.
Qed.

(* phases below the density threshold contribute nothing to the recorded sums *)
Lemma sums_mixed minDens ps ne : wfElems ne ps ->
  Forall (fun p => regular minDens p \/ absent minDens p) ps ->
  let present := filter (fun p => negb (Rltb (M0 p) minDens)) ps in
  sumFv Rops (map (phaseBalance Rops minDens) ps) = totalVol present /\
  forall e, (e < ne)%nat -> sumFconc Rops (map (phaseBalance Rops minDens) ps) e = totalSolute present e.
Proof.
  intros Hw Hr. induction ps as [|p ps IH].
  - split; [reflexivity|intros; reflexivity].
  - inversion Hw as [|? ? Hp Hw']; subst. inversion Hr as [|? ? Rp Hr']; subst.
    destruct (IH Hw' Hr') as [IH1 IH2]. clear IH.
    unfold sumFv, sumFconc, totalVol, totalSolute in *. cbn [filter map sumT]. Rnorm.
    destruct Rp as [Rp|Ap].
    + destruct (phaseBalance_regular minDens p Rp) as (_ & _ & Hfv & Hfc).
      destruct Rp as (_ & _ & Hd & _).
      destruct (Rltb (M0 p) minDens) eqn:E; Rbool; [lra|]. cbn [negb map sumT]. Rnorm. split.
      * rewrite Hfv, IH1. reflexivity.
      * intros e He. unfold nthT in *. Rnorm. rewrite Hfc by lia. rewrite IH2 by exact He. reflexivity.
    + destruct (phaseBalance_absent minDens p Ap) as (_ & _ & Hfv & Hfc). unfold absent in Ap.
      destruct (Rltb (M0 p) minDens) eqn:E; Rbool; [|lra]. cbn [negb]. split.
      * rewrite Hfv, IH1. lra.
      * intros e He. unfold nthT in *. Rnorm. rewrite Hfc. rewrite IH2 by exact He. lra.
Qed.

(* the solute balance in terms of the recorded quantities (pure algebra of matrixComp) *)
Lemma matrixComp_identity minComp x0 prev outs e :
  (e < length x0)%nat -> sumFv Rops outs < 1 ->
  let c := (nthR x0 e - sumFconc Rops outs e) / (1 - sumFv Rops outs) in
  (0 <= c -> nthR (matrixComp Rops minComp x0 prev outs) e = c /\
             nthR x0 e = c * (1 - sumFv Rops outs) + sumFconc Rops outs e) /\
  (c < 0 -> nthR (matrixComp Rops minComp x0 prev outs) e = minComp).
Proof.
  intros He Hf c. unfold matrixComp. Rnorm.
  destruct (Rltb (sumFv Rops outs) 1) eqn:E; Rbool; [|lra].
  rewrite nth_map_seq by exact He. unfold nthT. Rnorm. fold c.
  split; intros Hc.
  - destruct (Rltb c 0) eqn:E2; Rbool; [lra|]. split; [reflexivity|]. subst c. field. lra.
  - destruct (Rltb c 0) eqn:E2; Rbool; [reflexivity|lra].
Qed.

(* total fraction at least one: the composition is NOT updated *)
Lemma matrixComp_saturated minComp x0 prev outs :
  1 <= sumFv Rops outs -> matrixComp Rops minComp x0 prev outs = prev.
Proof.
  intros H. unfold matrixComp. Rnorm. destruct (Rltb (sumFv Rops outs) 1) eqn:E; Rbool; [lra|reflexivity].
Qed.

(* C01, one evaluation: the initial content of every solute equals matrix content weighted by the
   matrix fraction plus the solute held in the precipitates, summed over the size distributions *)
Lemma conservation minDens minComp x0 prev ps e :
  wfElems (length x0) ps ->
  Forall (fun p => regular minDens p \/ absent minDens p) ps ->
  (e < length x0)%nat ->
  let present := filter (fun p => negb (Rltb (M0 p) minDens)) ps in
  totalVol present < 1 ->
  let comp := snd (massBalance Rops minDens minComp x0 prev ps) in
  let raw := (nthR x0 e - totalSolute present e) / (1 - totalVol present) in
  (0 <= raw -> nthR x0 e = nthR comp e * (1 - totalVol present) + totalSolute present e) /\
  (raw < 0 -> nthR comp e = minComp).
Proof.
  intros Hw Hr He present Hv comp raw. subst comp. unfold massBalance. cbn [snd].
  destruct (sums_mixed minDens ps (length x0) Hw Hr) as [S1 S2]. fold present in S1, S2.
  pose proof (matrixComp_identity minComp x0 prev (map (phaseBalance Rops minDens) ps) e He) as MI.
  rewrite S1, (S2 e He) in MI. specialize (MI Hv). cbv zeta in MI. fold raw in MI.
  destruct MI as [MI1 MI2]. split; intros Hc.
  - destruct (MI1 Hc) as [E1 E2]. rewrite E1. exact E2.
  - apply MI2. exact Hc.
Qed.

(* solute omitted for a phase treated as absent is bounded by its (sub-threshold) density *)
Lemma absent_bound (N sz : list R) Rmax : Forall (fun x => 0 <= x) N ->
  Forall (fun r => 0 <= r <= Rmax) sz ->
  momentFromN Rops sz N 3 <= momentFromN Rops sz N 0 * Rmax ^ 3.
Proof.
  intros HN. revert sz. induction HN as [|n N Hn HN IH]; intros sz Hs.
  - unfold momentFromN. simpl. Rnorm. lra.
  - destruct sz as [|r sz]; [unfold momentFromN; simpl; Rnorm; lra|].
    inversion Hs as [|? ? Hr Hs']; subst. specialize (IH sz Hs').
    assert (H3 : r ^ 3 <= Rmax ^ 3) by (apply pow_incr; lra).
    unfold momentFromN in *. simpl in *. Rnorm.
    set (A := sumR (zipWith (fun n0 r0 : R => n0 * (r0 * (r0 * (r0 * 1)))) N sz)) in *.
    set (B := sumR (zipWith (fun n0 _ : R => n0 * 1) N sz)) in *.
    assert (n * (r * (r * (r * 1))) <= n * (Rmax * (Rmax * (Rmax * 1)))) by nra.
    nra.
Qed.

(* ---- trajectories: every recorded slice satisfies the balance of the inputs it was computed from *)
Record step_in := mkStep { s_prev : list R; s_phases : list phase }.

Definition record (minDens minComp : R) (x0 : list R) (s : step_in) :=
  massBalance Rops minDens minComp x0 (s_prev s) (s_phases s).

Definition conserved (minDens minComp : R) (x0 : list R) (s : step_in) : Prop :=
  forall e, (e < length x0)%nat ->
  let present := filter (fun p => negb (Rltb (M0 p) minDens)) (s_phases s) in
  let comp := snd (record minDens minComp x0 s) in
  let raw := (nthR x0 e - totalSolute present e) / (1 - totalVol present) in
  (0 <= raw -> nthR x0 e = nthR comp e * (1 - totalVol present) + totalSolute present e) /\
  (raw < 0 -> nthR comp e = minComp).

Definition admissible (minDens : R) (x0 : list R) (s : step_in) : Prop :=
  wfElems (length x0) (s_phases s) /\
  Forall (fun p => regular minDens p \/ absent minDens p) (s_phases s) /\
  totalVol (filter (fun p => negb (Rltb (M0 p) minDens)) (s_phases s)) < 1.

(* any number of steps, any number of solve segments (segments only concatenate step lists) *)
Lemma trajectory_conserves minDens minComp x0 (segments : list (list step_in)) :
  Forall (Forall (admissible minDens x0)) segments ->
  Forall (conserved minDens minComp x0) (concat segments).
Proof.
  intros H. apply Forall_concat. eapply Forall_impl; [|exact H].
  intros seg Hseg. eapply Forall_impl; [|exact Hseg].
  intros s (Hw & Hr & Hv) e He. apply conservation; assumption.
Qed.
