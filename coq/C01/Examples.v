(* C01 - non-vacuity and refutation witnesses, evaluated on exact rationals. *)
From Coq Require Import QArith List ZArith.
Require Import Kawin.Common.Ops Kawin.Common.Vec Kawin.C07.Model Kawin.C01.Model.
Import ListNotations.
Open Scope Q_scope.

(* two size classes, one solute, k = 1 * 2, table rows 1/4 *)
Definition ph (n1 n2 : Q) : phase_in Qops :=
  mkPhaseIn Qops 1 2 [n1; n2] [1; 2] [[1#4]; [1#4]; [1#4]] false true [0] [0; 0].

(* regular case: density 3/100, M3 = 1/100 + 2/100*8 = 17/100, fv = 34/100, fconc = 34/400 *)
Example balance_example :
  massBalance Qops (1#1000) 0 [1#10] [1#10] [ph (1#100) (2#100)]
  = ([mkPhaseOut Qops (3#100) (5#3) (17#50) [17#200]], [Qred (((1#10) - (17#200)) / (1 - (17#50)))]).
Proof. vm_compute. reflexivity. Qed.

(* the identity of C01_conservation on this instance: x0 = comp*(1-fv) + fconc *)
Example balance_example_identity :
  let r := massBalance Qops (1#1000) 0 [1#10] [1#10] [ph (1#100) (2#100)] in
  Qeq_bool (1#10) (Qred (nth 0 (snd r) 0 * (1 - (17#50)) + (17#200))) = true.
Proof. vm_compute. reflexivity. Qed.

(* refutation of the balance when the phases fill space (total fraction >= 1): the recorded
   composition is simply the previous one, here 1/10, whatever the precipitates hold *)
Example saturated_refuted :
  let r := massBalance Qops (1#1000) 0 [1#10] [1#10] [ph 1 1] in
  map (fv Qops) (fst r) = [1] /\ snd r = [1#10] /\
  Qeq_bool (1#10) (Qred (nth 0 (snd r) 0 * (1 - 1) + nth 0 (fconc Qops (nth 0 (fst r) (mkPhaseOut Qops 0 0 0 []))) 0)) = false.
Proof. vm_compute. repeat split; reflexivity. Qed.

(* negative raw composition -> clamp value *)
Example clamp_example :
  snd (massBalance Qops (1#1000) (7#1000) [1#100] [1#100] [ph (1#100) (2#100)]) = [7#1000].
Proof. vm_compute. reflexivity. Qed.
