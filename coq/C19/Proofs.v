(* C19 - lemmas about the real-number instance of the stopping-condition model. *)
From Coq Require Import String Reals List Bool ZArith Arith Lia Lra Psatz.
Require Import Kawin.Common.Ops Kawin.Common.Vec Kawin.C19.Model.
Import ListNotations.
Open Scope R_scope.

Tactic Notation "lia" := (cbn [T Rops] in *; Lia.lia).
Tactic Notation "lra" := (cbn [T Rops] in *; Lra.lra).
Tactic Notation "nra" := (cbn [T Rops] in *; Lra.nra).

Notation rowR := (row Rops).
Notation condR := (cond Rops).
Notation latchR := (latch Rops).
Notation entryR := (entry Rops).

(* ---- specification vocabulary (written from the property text, not from the code) --------- *)

(* the monitored quantity of condition c at recorded step n of history H *)
Definition sel0 (nm : names) (c : condR) : nat :=
  match sel_index Rops nm c with Some p => p | None => 0%nat end.
Definition val (nm : names) (c : condR) (H : list rowR) (n : nat) : R :=
  nth (sel0 nm c) (column Rops (c_q Rops c) (nth n H (dummy_row Rops))) 0.

(* "the condition holds for value v" *)
Definition holds (c : condR) (v : R) : Prop :=
  match c_ineq Rops c with GreaterThan => c_value Rops c < v | LesserThan => v < c_value Rops c end.

Lemma compare_holds c v : compare Rops c v = true <-> holds c v.
Proof.
  unfold compare, holds. destruct (c_ineq Rops c); Rnorm; apply Rltb_true.
Qed.
Lemma compare_not_holds c v : compare Rops c v = false <-> ~ holds c v.
Proof.
  rewrite <- compare_holds. destruct (compare Rops c v); split; intros H; try congruence.
Qed.

(* the selection of c can be resolved and every row of H has that column entry *)
Definition row_ok (nm : names) (c : condR) (r : rowR) : Prop :=
  exists p, sel_index Rops nm c = Some p /\ (p < length (column Rops (c_q Rops c) r))%nat.
Definition hist_ok (nm : names) (c : condR) (H : list rowR) : Prop := Forall (row_ok nm c) H.

Lemma poll_val nm c H n : hist_ok nm c H -> (n < length H)%nat ->
  poll Rops nm c H n = Some (val nm c H n).
Proof.
  intros Hok Hn. unfold poll, val, sel0.
  assert (Hr : row_ok nm c (nth n H (dummy_row Rops))).
  { unfold hist_ok in Hok. rewrite Forall_forall in Hok. apply Hok, nth_In, Hn. }
  destruct Hr as (p & Hp & Hlen). rewrite Hp.
  rewrite (nth_error_nth' H (dummy_row Rops) Hn). cbv iota beta.
  apply (nth_error_nth' _ 0 Hlen).
Qed.

(* the column a condition watches is looked up BY NAME in the model that polls it: it is the first position
   of the name in that model's own list (phases, or elements for a composition condition), whatever any
   other model lists; no name = column 0 *)
Lemma index_of_spec s l p : index_of s l = Some p ->
  nth_error l p = Some s /\ forall j, (j < p)%nat -> nth_error l j <> Some s.
Proof.
  revert p. induction l as [|x l IH]; intros p Hi; simpl in Hi; [discriminate|].
  destruct (String.eqb x s) eqn:E.
  - inversion Hi; subst p. apply String.eqb_eq in E. subst x. split; [reflexivity | intros j Hj; lia].
  - destruct (index_of s l) as [p'|]; [|discriminate]. simpl in Hi. inversion Hi; subst p.
    destruct (IH p' eq_refl) as (H1 & H2). split; [exact H1|].
    intros [|j] Hj; simpl.
    + intros Hx. inversion Hx. subst x. rewrite String.eqb_refl in E. discriminate.
    + apply H2. lia.
Qed.

Definition name_list (nm : names) (c : condR) : list string :=
  match c_q Rops c with Composition => n_elements nm | _ => n_phases nm end.

Lemma selection_by_name nm (c : condR) :
  match c_sel Rops c with
  | None => sel_index Rops nm c = Some 0%nat
  | Some s => forall p, sel_index Rops nm c = Some p ->
                nth_error (name_list nm c) p = Some s /\
                forall j, (j < p)%nat -> nth_error (name_list nm c) j <> Some s
  end.
Proof.
  unfold sel_index, name_list. destruct (c_sel Rops c) as [s|]; [|reflexivity].
  intros p Hp. apply index_of_spec. exact Hp.
Qed.

(* polling reads that column of the current row of the polling model's history *)
Lemma poll_column nm (c : condR) H n p r :
  sel_index Rops nm c = Some p -> nth_error H n = Some r ->
  poll Rops nm c H n = nth_error (column Rops (c_q Rops c) r) p.
Proof. intros Hs Hr. unfold poll. rewrite Hs, Hr. reflexivity. Qed.

(* the time a condition reports when it is first found to hold at step n (n = index of the last
   recorded row): the previous recorded time when the quantity already satisfied the inequality
   there, else the abscissa at which the chord through (t_{n-1}, x_{n-1}), (t_n, x_n) meets the
   threshold; at n = 0 the time of the only row *)
Definition cross_time (nm : names) (c : condR) (H : list rowR) (n : nat) : R :=
  if (0 <? n)%nat then
    if compare Rops c (val nm c H (n - 1)) then tm Rops H (n - 1)
    else (tm Rops H n - tm Rops H (n - 1)) * (c_value Rops c - val nm c H (n - 1))
         / (val nm c H n - val nm c H (n - 1)) + tm Rops H (n - 1)
  else tm Rops H n.

(* ---- testCondition ------------------------------------------------------------------------ *)
Lemma latched_stays nm c H (l : latchR) : l_sat Rops l = true -> test_cond Rops nm c H l = Some l.
Proof. intros Hs. unfold test_cond. rewrite Hs. reflexivity. Qed.

(* what one call does to an unsatisfied latch *)
Lemma test_cond_spec nm c H (l : latchR) : hist_ok nm c H -> H <> [] -> l_sat Rops l = false ->
  let n := (length H - 1)%nat in
  test_cond Rops nm c H l =
    Some (if compare Rops c (val nm c H n) then @mkLatch Rops true (cross_time nm c H n)
          else @mkLatch Rops false (l_time Rops l)).
Proof.
  intros Hok Hne Hs n. unfold test_cond. rewrite Hs. fold n.
  assert (Hlen : (0 < length H)%nat) by (destruct H; simpl; [congruence | lia]).
  rewrite (poll_val nm c H n Hok) by (unfold n; lia).
  destruct (compare Rops c (val nm c H n)) eqn:Hc; [|reflexivity].
  unfold cross_time. destruct (0 <? n)%nat eqn:Hn; [|reflexivity].
  apply Nat.ltb_lt in Hn.
  rewrite (poll_val nm c H (n - 1) Hok) by (unfold n in *; lia).
  destruct (compare Rops c (val nm c H (n - 1))); reflexivity.
Qed.

(* the reported time lies within the step, and on the chord *)
Lemma cross_time_in_step nm c H n : (0 < n)%nat ->
  tm Rops H (n - 1) <= tm Rops H n ->
  holds c (val nm c H n) ->
  tm Rops H (n - 1) <= cross_time nm c H n <= tm Rops H n.
Proof.
  intros Hn Ht Hcur. unfold cross_time.
  apply Nat.ltb_lt in Hn. rewrite Hn.
  destruct (compare Rops c (val nm c H (n - 1))) eqn:Hp; [lra|].
  apply compare_not_holds in Hp. unfold holds in *.
  set (tp := tm Rops H (n - 1)) in *. set (tc := tm Rops H n) in *.
  set (xp := val nm c H (n - 1)) in *. set (xc := val nm c H n) in *.
  set (v := c_value Rops c) in *.
  destruct (c_ineq Rops c).
  - assert (Hd : 0 < xc - xp) by lra.
    assert (H0 : 0 <= (v - xp) / (xc - xp) <= 1).
    { split.
      - apply Rmult_le_pos; [lra | left; apply Rinv_0_lt_compat; lra].
      - apply (Rmult_le_reg_r (xc - xp)); [lra|]. unfold Rdiv. rewrite Rmult_assoc, Rinv_l by lra. lra. }
    replace ((tc - tp) * (v - xp) / (xc - xp)) with ((tc - tp) * ((v - xp) / (xc - xp))) by (field; lra).
    nra.
  - assert (Hd : xc - xp < 0) by lra.
    assert (H0 : 0 <= (v - xp) / (xc - xp) <= 1).
    { replace ((v - xp) / (xc - xp)) with ((xp - v) / (xp - xc)) by (field; lra).
      split.
      - apply Rmult_le_pos; [lra | left; apply Rinv_0_lt_compat; lra].
      - apply (Rmult_le_reg_r (xp - xc)); [lra|]. unfold Rdiv. rewrite Rmult_assoc, Rinv_l by lra. lra. }
    replace ((tc - tp) * (v - xp) / (xc - xp)) with ((tc - tp) * ((v - xp) / (xc - xp))) by (field; lra).
    nra.
Qed.

(* by linear interpolation: the straight line through the two recorded points takes the
   threshold value at the reported time *)
Lemma cross_time_on_chord nm c H n : (0 < n)%nat ->
  ~ holds c (val nm c H (n - 1)) -> holds c (val nm c H n) ->
  let tp := tm Rops H (n - 1) in let tc := tm Rops H n in
  let xp := val nm c H (n - 1) in let xc := val nm c H n in
  (xc - xp) * (cross_time nm c H n - tp) = (c_value Rops c - xp) * (tc - tp).
Proof.
  intros Hn Hp Hcur tp tc xp xc. unfold cross_time.
  apply Nat.ltb_lt in Hn. rewrite Hn.
  apply compare_not_holds in Hp. rewrite Hp. fold tp tc xp xc.
  apply compare_not_holds in Hp. unfold holds in *. fold xp xc in Hp, Hcur.
  assert (xc - xp <> 0) by (destruct (c_ineq Rops c); lra).
  field. assumption.
Qed.

Lemma cross_time_already_met nm c H n : (0 < n)%nat -> holds c (val nm c H (n - 1)) ->
  cross_time nm c H n = tm Rops H (n - 1).
Proof.
  intros Hn Hp. unfold cross_time. apply Nat.ltb_lt in Hn. rewrite Hn.
  apply compare_holds in Hp. rewrite Hp. reflexivity.
Qed.

(* strictly inside when the previous value is strictly on the other side and time advanced *)
Lemma cross_time_strict nm c H n : (0 < n)%nat ->
  tm Rops H (n - 1) < tm Rops H n ->
  val nm c H (n - 1) <> c_value Rops c -> ~ holds c (val nm c H (n - 1)) ->
  holds c (val nm c H n) ->
  tm Rops H (n - 1) < cross_time nm c H n < tm Rops H n.
Proof.
  intros Hn Ht Hne Hp Hcur.
  pose proof (cross_time_on_chord nm c H n Hn Hp Hcur) as Hch. cbv zeta in Hch.
  unfold holds in *.
  set (tp := tm Rops H (n - 1)) in *. set (tc := tm Rops H n) in *.
  set (xp := val nm c H (n - 1)) in *. set (xc := val nm c H n) in *.
  set (v := c_value Rops c) in *. set (s := cross_time nm c H n) in *.
  destruct (c_ineq Rops c).
  - assert (xp < v) by lra. split; nra.
  - assert (v < xp) by lra. split; nra.
Qed.

(* ---- the or / and combination of postProcess ----------------------------------------------- *)
Definition exOr (es : list entryR) : bool :=
  existsb (fun e => e_or Rops e && l_sat Rops (e_latch Rops e)) es.
Definition allAnd (es : list entryR) : bool :=
  forallb (fun e => e_or Rops e || l_sat Rops (e_latch Rops e)) es.
Definition anyAnd (es : list entryR) : bool := existsb (fun e => negb (e_or Rops e)) es.
Definition numAnd (es : list entryR) : nat := length (filter (fun e => negb (e_or Rops e)) es).

Lemma fold_stop (es : list entryR) : forall o a k,
  fold_left (stop_acc Rops) es (o, a, k) = (o || exOr es, a && allAnd es, (k + numAnd es)%nat).
Proof.
  induction es as [|e es IH]; intros o a k; simpl.
  - rewrite orb_false_r, andb_true_r, Nat.add_0_r. reflexivity.
  - unfold numAnd in *. simpl. destruct (e_or Rops e); simpl; rewrite IH.
    + rewrite orb_assoc. reflexivity.
    + rewrite andb_assoc. f_equal. lia.
Qed.

Lemma numAnd_anyAnd es : (numAnd es =? 0)%nat = negb (anyAnd es).
Proof.
  unfold numAnd, anyAnd. induction es as [|e es IH]; simpl; auto.
  destruct (e_or Rops e); simpl; auto.
Qed.

Lemma stop_flag_spec (es : list entryR) :
  stop_flag Rops es = exOr es || (anyAnd es && allAnd es).
Proof.
  unfold stop_flag. rewrite fold_stop. simpl. rewrite numAnd_anyAnd.
  destruct (anyAnd es); reflexivity.
Qed.

(* ---- iterating the loop body without the exit test ------------------------------------------ *)
Section Run.
Variable nm : names.
Variable next : list rowR -> rowR.

Fixpoint hist (k : nat) (h : list rowR) : list rowR :=
  match k with 0%nat => h | S k' => hist k' (snoc_next Rops next h) end.

Fixpoint steps (k : nat) (h : list rowR) (es : list entryR) : option (list rowR * list entryR) :=
  match k with
  | 0%nat => Some (h, es)
  | S k' =>
      match test_all Rops nm (snoc_next Rops next h) es with
      | None => None
      | Some es' => steps k' (snoc_next Rops next h) es'
      end
  end.

Definition flag_after (k : nat) (stop0 : bool) (es : list entryR) : bool :=
  match k with 0%nat => stop0 | _ => stop_flag Rops es end.

Lemma steps_zero_flag K h es h' es' :
  steps K h es = Some (h', es') -> flag_after K (stop_flag Rops es) es' = stop_flag Rops es' /\
  (K = 0%nat -> es' = es /\ h' = h).
Proof.
  destruct K; simpl; intros Hs.
  - inversion Hs; subst. auto.
  - split; [reflexivity | discriminate].
Qed.

Lemma run_spec tf : forall fuel h es stop h' es' stopped,
  run Rops nm next fuel tf h es stop = Finished h' es' stopped ->
  exists K, steps K h es = Some (h', es') /\
    stopped = flag_after K stop es' /\
    (tf <= tm Rops h' (length h' - 1) \/ stopped = true) /\
    forall j hj esj, (j < K)%nat -> steps j h es = Some (hj, esj) ->
       tm Rops hj (length hj - 1) < tf /\ flag_after j stop esj = false.
Proof.
  induction fuel as [|f IH]; intros h es stop h' es' stopped Hr; cbn [run] in Hr; [discriminate|].
  destruct (ltb Rops (tm Rops h (length h - 1)) tf && negb stop) eqn:E.
  - destruct (test_all Rops nm (snoc_next Rops next h) es) as [es1|] eqn:Et; [|discriminate].
    apply IH in Hr. destruct Hr as (K & Hs & Hst & Hex & Hall).
    exists (S K). split; [simpl; rewrite Et; exact Hs|].
    destruct (steps_zero_flag K _ _ _ _ Hs) as (Hf & Hz).
    split; [simpl; rewrite Hst; exact Hf|]. split; [exact Hex|].
    intros j hj esj Hj Hsj. destruct j as [|j].
    + simpl in Hsj. inversion Hsj; subst hj esj. simpl.
      apply andb_true_iff in E. destruct E as (E1 & E2). Rnorm. apply Rltb_true in E1.
      split; [exact E1|]. destruct stop; simpl in E2; congruence.
    + simpl in Hsj. rewrite Et in Hsj.
      destruct (Hall j hj esj ltac:(lia) Hsj) as (Ht & Hfl). split; [exact Ht|].
      destruct (steps_zero_flag j _ _ _ _ Hsj) as (Hf' & _). simpl. rewrite <- Hf'. exact Hfl.
  - inversion Hr; subst h' es' stopped. exists 0%nat. simpl. split; [reflexivity|].
    split; [reflexivity|]. split.
    + apply andb_false_iff in E. destruct E as [E|E].
      * left. Rnorm. apply Rltb_false in E. exact E.
      * right. destruct stop; simpl in E; congruence.
    + intros j hj esj Hj. lia.
Qed.

(* the loop cannot run out of fuel when one of the first [fuel - 1] states meets the exit test *)
Lemma run_enough_fuel tf : forall fuel h es stop K h' es',
  steps K h es = Some (h', es') -> (K < fuel)%nat ->
  (tf <= tm Rops h' (length h' - 1) \/ flag_after K stop es' = true) ->
  exists h2 es2 stopped, run Rops nm next fuel tf h es stop = Finished h2 es2 stopped.
Proof.
  induction fuel as [|f IH]; intros h es stop K h' es' Hs HK Hex; [lia|].
  cbn [run]. destruct (ltb Rops (tm Rops h (length h - 1)) tf && negb stop) eqn:E.
  - destruct K as [|K].
    + simpl in Hs. inversion Hs; subst h' es'. simpl in Hex.
      apply andb_true_iff in E. destruct E as (E1 & E2). Rnorm. apply Rltb_true in E1.
      destruct Hex as [Hex|Hex]; [lra | subst stop; discriminate].
    + simpl in Hs. destruct (test_all Rops nm (snoc_next Rops next h) es) as [es1|] eqn:Et; [|discriminate].
      apply (IH _ _ (stop_flag Rops es1) K h' es' Hs ltac:(lia)).
      destruct Hex as [Hex|Hex]; [left; exact Hex|right].
      destruct (steps_zero_flag K _ _ _ _ Hs) as (Hf & _). rewrite Hf. exact Hex.
  - eauto.
Qed.

(* ---- the recorded history only grows ---------------------------------------------------------- *)
Lemma hist_length k : forall h, length (hist k h) = (length h + k)%nat.
Proof.
  induction k as [|k IH]; intros h; simpl; [lia|].
  rewrite IH. unfold snoc_next. rewrite app_length. simpl. lia.
Qed.

Lemma hist_prefix k : forall h i d, (i < length h)%nat -> nth i (hist k h) d = nth i h d.
Proof.
  induction k as [|k IH]; intros h i d Hi; simpl; [reflexivity|].
  rewrite IH by (unfold snoc_next; rewrite app_length; simpl; lia).
  unfold snoc_next. apply app_nth1. exact Hi.
Qed.

Lemma hist_add j : forall m h, hist (j + m) h = hist m (hist j h).
Proof. induction j as [|j IH]; intros m h; simpl; [reflexivity | apply IH]. Qed.

Lemma hist_S k h : hist (S k) h = snoc_next Rops next (hist k h).
Proof. replace (S k) with (k + 1)%nat by lia. rewrite hist_add. reflexivity. Qed.

Lemma steps_hist K : forall h es h' es', steps K h es = Some (h', es') -> h' = hist K h.
Proof.
  induction K as [|K IH]; intros h es h' es' Hs; simpl in *.
  - inversion Hs; reflexivity.
  - destruct (test_all Rops nm (snoc_next Rops next h) es); [|discriminate]. eapply IH; eauto.
Qed.

Lemma steps_add j : forall m h es,
  steps (j + m) h es =
    match steps j h es with Some (h1, es1) => steps m h1 es1 | None => None end.
Proof.
  induction j as [|j IH]; intros m h es; simpl; [reflexivity|].
  destruct (test_all Rops nm (snoc_next Rops next h) es); [apply IH | reflexivity].
Qed.

End Run.

(* ---- what the latches hold after K loop iterations --------------------------------------------- *)
Section Latch.
Variable nm : names.

(* first recorded step in start .. start+K-1 at which the monitored quantity satisfies c *)
Definition first_met (c : condR) (H : list rowR) (start K : nat) : option nat :=
  find (fun n => compare Rops c (val nm c H n)) (seq start K).

Definition latch_after (c : condR) (H : list rowR) (start K : nat) (l : latchR) : latchR :=
  if l_sat Rops l then l
  else match first_met c H start K with
       | Some n => @mkLatch Rops true (cross_time nm c H n)
       | None => @mkLatch Rops false (l_time Rops l)
       end.

Definition entry_after (H : list rowR) (start K : nat) (e : entryR) : entryR :=
  @mkEntry Rops (e_cond Rops e) (e_or Rops e) (latch_after (e_cond Rops e) H start K (e_latch Rops e)).

Lemma first_met_Some c H start K n : first_met c H start K = Some n ->
  (start <= n < start + K)%nat /\ holds c (val nm c H n) /\
  forall i, (start <= i < n)%nat -> ~ holds c (val nm c H i).
Proof.
  unfold first_met. revert start. induction K as [|K IH]; intros start Hf; simpl in Hf; [discriminate|].
  destruct (compare Rops c (val nm c H start)) eqn:Hc.
  - inversion Hf; subst n. split; [lia|]. split; [apply compare_holds; exact Hc | intros i Hi; lia].
  - apply IH in Hf. destruct Hf as (Hr & Hh & Hall). split; [lia|]. split; [exact Hh|].
    intros i Hi. destruct (Nat.eq_dec i start) as [->|Hne].
    + apply compare_not_holds; exact Hc.
    + apply Hall. lia.
Qed.

Lemma first_met_None c H start K : first_met c H start K = None ->
  forall i, (start <= i < start + K)%nat -> ~ holds c (val nm c H i).
Proof.
  unfold first_met. revert start. induction K as [|K IH]; intros start Hf i Hi; simpl in Hf; [lia|].
  destruct (compare Rops c (val nm c H start)) eqn:Hc; [discriminate|].
  destruct (Nat.eq_dec i start) as [->|Hne].
  - apply compare_not_holds; exact Hc.
  - apply (IH (S start) Hf). lia.
Qed.

Lemma val_ext c H1 H2 n :
  nth n H1 (dummy_row Rops) = nth n H2 (dummy_row Rops) -> val nm c H1 n = val nm c H2 n.
Proof. unfold val. intros ->. reflexivity. Qed.
Lemma tm_ext (H1 H2 : list rowR) n :
  nth n H1 (dummy_row Rops) = nth n H2 (dummy_row Rops) -> tm Rops H1 n = tm Rops H2 n.
Proof. unfold tm. intros ->. reflexivity. Qed.

Lemma cross_time_ext c H1 H2 n :
  (forall i, (i <= n)%nat -> nth i H1 (dummy_row Rops) = nth i H2 (dummy_row Rops)) ->
  cross_time nm c H1 n = cross_time nm c H2 n.
Proof.
  intros He. unfold cross_time.
  rewrite (val_ext c H1 H2 n), (val_ext c H1 H2 (n - 1)), (tm_ext H1 H2 n), (tm_ext H1 H2 (n - 1));
    try (apply He; lia). reflexivity.
Qed.

Lemma first_met_ext c H1 H2 K : forall start,
  (forall i, (start <= i < start + K)%nat -> nth i H1 (dummy_row Rops) = nth i H2 (dummy_row Rops)) ->
  first_met c H1 start K = first_met c H2 start K.
Proof.
  unfold first_met. induction K as [|K IH]; intros start He; simpl; [reflexivity|].
  rewrite (val_ext c H1 H2 start) by (apply He; lia).
  destruct (compare Rops c (val nm c H2 start)); [reflexivity|]. apply IH. intros i Hi. apply He. lia.
Qed.

Lemma latch_after_ext c H1 H2 start K l :
  (forall i, (i < start + K)%nat -> nth i H1 (dummy_row Rops) = nth i H2 (dummy_row Rops)) ->
  latch_after c H1 start K l = latch_after c H2 start K l.
Proof.
  intros He. unfold latch_after. destruct (l_sat Rops l); [reflexivity|].
  rewrite (first_met_ext c H1 H2 K start) by (intros i Hi; apply He; lia).
  destruct (first_met c H2 start K) as [n|] eqn:Hf; [|reflexivity].
  apply first_met_Some in Hf. destruct Hf as (Hr & _).
  rewrite (cross_time_ext c H1 H2 n); [reflexivity|]. intros i Hi. apply He. lia.
Qed.

Lemma latch_eta (l : latchR) : l_sat Rops l = false -> @mkLatch Rops false (l_time Rops l) = l.
Proof. destruct l; simpl; intros ->; reflexivity. Qed.

(* satisfied after K steps  <=>  satisfied before, or the quantity satisfied c at one of the steps *)
Lemma sat_after c H start K l :
  l_sat Rops (latch_after c H start K l) =
    l_sat Rops l || existsb (fun n => compare Rops c (val nm c H n)) (seq start K).
Proof.
  unfold latch_after, first_met. destruct (l_sat Rops l) eqn:Hs; [rewrite Hs; reflexivity|]. simpl.
  generalize (seq start K). intros L. induction L as [|x L IH]; simpl; [reflexivity|].
  destruct (compare Rops c (val nm c H x)); simpl; [reflexivity | exact IH].
Qed.

(* one call of testCondition in these terms *)
Definition step_latch (c : condR) (h : list rowR) (l : latchR) : latchR :=
  latch_after c h (length h - 1) 1 l.

Lemma test_cond_step c h l : hist_ok nm c h -> h <> [] ->
  test_cond Rops nm c h l = Some (step_latch c h l).
Proof.
  intros Hok Hne. unfold step_latch, latch_after, first_met. simpl.
  destruct (l_sat Rops l) eqn:Hs; [apply latched_stays; exact Hs|].
  rewrite (test_cond_spec nm c h l Hok Hne Hs). cbv zeta.
  destruct (compare Rops c (val nm c h (length h - 1))); reflexivity.
Qed.

Definition conds (es : list entryR) : list condR := map (e_cond Rops) es.

Lemma test_all_map h es : h <> [] -> Forall (fun c => hist_ok nm c h) (conds es) ->
  test_all Rops nm h es =
    Some (map (fun e => @mkEntry Rops (e_cond Rops e) (e_or Rops e) (step_latch (e_cond Rops e) h (e_latch Rops e))) es).
Proof.
  intros Hne. induction es as [|e es IH]; intros Hok; simpl; [reflexivity|].
  inversion Hok; subst. rewrite (test_cond_step _ h _ H1 Hne). rewrite (IH H2). reflexivity.
Qed.

Variable next : list rowR -> rowR.

(* every row the physics produces has the columns the conditions select *)
Definition next_ok (es : list entryR) : Prop :=
  forall c, In c (conds es) -> forall h, row_ok nm c (next h).

Lemma hist_ok_snoc c h : hist_ok nm c h -> row_ok nm c (next h) -> hist_ok nm c (snoc_next Rops next h).
Proof. intros Hh Hr. unfold hist_ok, snoc_next. apply Forall_app. split; [exact Hh | constructor; [exact Hr | constructor]]. Qed.

Lemma snoc_ne (h : list rowR) : snoc_next Rops next h <> [].
Proof. unfold snoc_next. destruct h; discriminate. Qed.

Lemma snoc_length (h : list rowR) : length (snoc_next Rops next h) = S (length h).
Proof. unfold snoc_next. rewrite app_length. simpl. lia. Qed.

Lemma conds_map_entry (f : entryR -> latchR) es :
  conds (map (fun e => @mkEntry Rops (e_cond Rops e) (e_or Rops e) (f e)) es) = conds es.
Proof. unfold conds. rewrite map_map. reflexivity. Qed.

(* one step of a latch followed by K more = K+1 steps, all read off the final history *)
Lemma latch_after_step c (h H : list rowR) K l : h <> [] ->
  (forall i, (i < length h)%nat -> nth i H (dummy_row Rops) = nth i h (dummy_row Rops)) ->
  latch_after c H (length h) K (step_latch c h l) = latch_after c H (length h - 1) (S K) l.
Proof.
  intros Hne Hpre. unfold step_latch.
  assert (Hlen : (0 < length h)%nat) by (destruct h; simpl; [congruence | lia]).
  rewrite (latch_after_ext c h H (length h - 1) 1 l) by (intros i Hi; symmetry; apply Hpre; lia).
  unfold latch_after at 2 3. destruct (l_sat Rops l) eqn:Hs.
  - unfold latch_after. rewrite Hs. reflexivity.
  - unfold first_met. replace (seq (length h - 1) (S K)) with ((length h - 1)%nat :: seq (length h) K)
      by (simpl; f_equal; f_equal; lia).
    simpl. destruct (compare Rops c (val nm c H (length h - 1))) eqn:Hc.
    + unfold latch_after. simpl. reflexivity.
    + unfold latch_after. simpl. reflexivity.
Qed.

Theorem steps_entries K : forall h es h' es',
  h <> [] -> next_ok es -> Forall (fun c => hist_ok nm c h) (conds es) ->
  steps nm next K h es = Some (h', es') ->
  es' = map (entry_after h' (length h - 1 + 1) K) es.
Proof.
  induction K as [|K IH]; intros h es h' es' Hne Hnext Hok Hs; simpl in Hs.
  - inversion Hs; subst h' es'. rewrite <- (map_id es) at 1. apply map_ext. intros e.
    unfold entry_after, latch_after, first_met. simpl. destruct e as [c o l]. simpl.
    destruct (l_sat Rops l) eqn:Hl; [reflexivity|]. rewrite latch_eta by exact Hl. reflexivity.
  - assert (Hlen : (0 < length h)%nat) by (destruct h; simpl; [congruence | lia]).
    assert (Hok' : Forall (fun c => hist_ok nm c (snoc_next Rops next h)) (conds es)).
    { rewrite Forall_forall in *. intros c Hc. apply hist_ok_snoc; [apply Hok; exact Hc | apply Hnext; exact Hc]. }
    rewrite (test_all_map _ es (snoc_ne h) Hok') in Hs.
    pose proof (steps_hist nm next K _ _ _ _ Hs) as Hh'.
    apply IH in Hs; [| apply snoc_ne | intros c Hc; apply Hnext; rewrite conds_map_entry in Hc; exact Hc
                     | rewrite conds_map_entry; exact Hok'].
    rewrite Hs, map_map. apply map_ext. intros e. unfold entry_after. cbn [e_cond e_or e_latch]. f_equal.
    rewrite snoc_length.
    replace (S (length h) - 1 + 1)%nat with (length (snoc_next Rops next h)) by (rewrite snoc_length; lia).
    rewrite (latch_after_step (e_cond Rops e) (snoc_next Rops next h) h' K (e_latch Rops e) (snoc_ne h)).
    + rewrite snoc_length. f_equal; lia.
    + intros i Hi. rewrite Hh'. apply hist_prefix. exact Hi.
Qed.

(* no exception can leave the loop when the selections resolve *)
Lemma steps_total K : forall h es,
  h <> [] -> next_ok es -> Forall (fun c => hist_ok nm c h) (conds es) ->
  exists h' es', steps nm next K h es = Some (h', es').
Proof.
  induction K as [|K IH]; intros h es Hne Hnext Hok; simpl; [eauto|].
  assert (Hok' : Forall (fun c => hist_ok nm c (snoc_next Rops next h)) (conds es)).
  { rewrite Forall_forall in *. intros c Hc. apply hist_ok_snoc; [apply Hok; exact Hc | apply Hnext; exact Hc]. }
  rewrite (test_all_map _ es (snoc_ne h) Hok').
  apply IH; [apply snoc_ne | intros c Hc; apply Hnext; rewrite conds_map_entry in Hc; exact Hc
            | rewrite conds_map_entry; exact Hok'].
Qed.

End Latch.

(* ---- the run ends at the first step at which the combination holds, else at the end time --------- *)
Section Main.
Variable nm : names.
Variable next : list rowR -> rowR.

Definition entries_after (H : list rowR) (start K : nat) (es : list entryR) : list entryR :=
  map (entry_after nm H start K) es.

Lemma entries_after_ext H1 H2 start K es :
  (forall i, (i < start + K)%nat -> nth i H1 (dummy_row Rops) = nth i H2 (dummy_row Rops)) ->
  entries_after H1 start K es = entries_after H2 start K es.
Proof.
  intros He. unfold entries_after. apply map_ext. intros e. unfold entry_after. f_equal.
  apply latch_after_ext. exact He.
Qed.

Lemma ne_length (h : list rowR) : h <> [] -> (0 < length h)%nat.
Proof. destruct h; simpl; [congruence | lia]. Qed.

Theorem fires_at_first fuel tf h es h' es' stopped :
  h <> [] -> next_ok nm next es -> Forall (fun c => hist_ok nm c h) (conds es) ->
  run Rops nm next fuel tf h es false = Finished h' es' stopped ->
  let n0 := length h in
  exists K,
    h' = hist next K h /\ length h' = (n0 + K)%nat /\
    es' = entries_after h' n0 K es /\
    stopped = (0 <? K)%nat && stop_flag Rops (entries_after h' n0 K es) /\
    (stopped = false -> tf <= tm Rops h' (n0 + K - 1)) /\
    (forall j, (j < K)%nat -> tm Rops h' (n0 + j - 1) < tf) /\
    (forall j, (1 <= j < K)%nat -> stop_flag Rops (entries_after h' n0 j es) = false).
Proof.
  intros Hne Hnext Hok Hr n0.
  pose proof (ne_length h Hne) as Hlen.
  apply run_spec in Hr. destruct Hr as (K & Hs & Hst & Hex & Hall).
  pose proof (steps_hist nm next K _ _ _ _ Hs) as Hh.
  pose proof (steps_entries nm next K _ _ _ _ Hne Hnext Hok Hs) as He.
  replace (length h - 1 + 1)%nat with n0 in He by (unfold n0; lia).
  assert (Hl : length h' = (n0 + K)%nat) by (rewrite Hh; apply hist_length).
  exists K. split; [exact Hh|]. split; [exact Hl|]. split; [exact He|].
  split; [| split; [| split]].
  - rewrite Hst. destruct K; simpl; [reflexivity|]. rewrite He. reflexivity.
  - intros Hf. destruct Hex as [Hex|Hex]; [|congruence]. rewrite Hl in Hex. exact Hex.
  - intros j Hj.
    destruct (steps_total nm next j h es Hne Hnext Hok) as (hj & esj & Hsj).
    destruct (Hall j hj esj Hj Hsj) as (Ht & _).
    pose proof (steps_hist nm next j _ _ _ _ Hsj) as Hhj.
    assert (Hlj : length hj = (n0 + j)%nat) by (rewrite Hhj; apply hist_length).
    rewrite Hlj in Ht. rewrite (tm_ext h' hj); [exact Ht|].
    rewrite Hh, Hhj. replace K with (j + (K - j))%nat by lia. rewrite hist_add.
    apply hist_prefix. rewrite hist_length. fold n0. lia.
  - intros j Hj.
    destruct (steps_total nm next j h es Hne Hnext Hok) as (hj & esj & Hsj).
    destruct (Hall j hj esj ltac:(lia) Hsj) as (_ & Hfl).
    pose proof (steps_hist nm next j _ _ _ _ Hsj) as Hhj.
    pose proof (steps_entries nm next j _ _ _ _ Hne Hnext Hok Hsj) as Hej.
    replace (length h - 1 + 1)%nat with n0 in Hej by (unfold n0; lia).
    destruct j as [|j]; [lia|]. simpl in Hfl. rewrite Hej in Hfl.
    unfold entries_after in *. rewrite <- Hfl. f_equal. apply entries_after_ext.
    intros i Hi. rewrite Hh, Hhj. replace K with (S j + (K - S j))%nat by lia. rewrite hist_add.
    apply hist_prefix. rewrite hist_length. fold n0. lia.
Qed.

(* the same flag written with the raw "has been met" predicate *)
Definition met (H : list rowR) (start K : nat) (e : entryR) : bool :=
  l_sat Rops (e_latch Rops e)
  || existsb (fun n => compare Rops (e_cond Rops e) (val nm (e_cond Rops e) H n)) (seq start K).

Definition Met (H : list rowR) (start K : nat) (e : entryR) : Prop :=
  l_sat Rops (e_latch Rops e) = true \/
  exists n, (start <= n < start + K)%nat /\ holds (e_cond Rops e) (val nm (e_cond Rops e) H n).

Lemma met_Met H start K e : met H start K e = true <-> Met H start K e.
Proof.
  unfold met, Met. rewrite orb_true_iff, existsb_exists. split; intros [Hl|Hx]; auto; right.
  - destruct Hx as (n & Hin & Hc). apply in_seq in Hin. exists n. split; [lia | apply compare_holds; exact Hc].
  - destruct Hx as (n & Hr & Hh). exists n. split; [apply in_seq; lia | apply compare_holds; exact Hh].
Qed.

Lemma stop_flag_after H start K es :
  stop_flag Rops (entries_after H start K es) =
    existsb (fun e => e_or Rops e && met H start K e) es
    || (existsb (fun e => negb (e_or Rops e)) es
        && forallb (fun e => e_or Rops e || met H start K e) es).
Proof.
  rewrite stop_flag_spec. unfold exOr, anyAnd, allAnd, entries_after.
  induction es as [|e es IH]; simpl; [reflexivity|].
  unfold met at 1 3. rewrite <- sat_after.
  assert (E1 : existsb (fun e0 => e_or Rops e0 && l_sat Rops (e_latch Rops e0)) (map (entry_after nm H start K) es)
               = existsb (fun e0 => e_or Rops e0 && met H start K e0) es).
  { clear. induction es as [|e es IH]; simpl; [reflexivity|]. unfold met at 1. rewrite <- sat_after, IH. reflexivity. }
  assert (E2 : existsb (fun e0 => negb (e_or Rops e0)) (map (entry_after nm H start K) es)
               = existsb (fun e0 => negb (e_or Rops e0)) es).
  { clear. induction es as [|e es IH]; simpl; [reflexivity|]. rewrite IH. reflexivity. }
  assert (E3 : forallb (fun e0 => e_or Rops e0 || l_sat Rops (e_latch Rops e0)) (map (entry_after nm H start K) es)
               = forallb (fun e0 => e_or Rops e0 || met H start K e0) es).
  { clear. induction es as [|e es IH]; simpl; [reflexivity|]. unfold met at 1. rewrite <- sat_after, IH. reflexivity. }
  rewrite E1, E2, E3. reflexivity.
Qed.

Theorem stop_iff H start K es :
  stop_flag Rops (entries_after H start K es) = true <->
    (exists e, In e es /\ e_or Rops e = true /\ Met H start K e) \/
    ((exists e, In e es /\ e_or Rops e = false) /\
     forall e, In e es -> e_or Rops e = false -> Met H start K e).
Proof.
  rewrite stop_flag_after, orb_true_iff, andb_true_iff, !existsb_exists, forallb_forall.
  split; intros [H1|(H2 & H3)].
  - left. destruct H1 as (e & Hin & Hb). apply andb_true_iff in Hb. destruct Hb as (Ho & Hm).
    exists e. split; [exact Hin|]. split; [exact Ho | apply met_Met; exact Hm].
  - right. split.
    + destruct H2 as (e & Hin & Hb). exists e. split; [exact Hin|]. destruct (e_or Rops e); simpl in Hb; congruence.
    + intros e Hin Ho. specialize (H3 e Hin). rewrite Ho in H3. simpl in H3. apply met_Met; exact H3.
  - left. destruct H1 as (e & Hin & Ho & Hm). exists e. split; [exact Hin|]. rewrite Ho. simpl. apply met_Met; exact Hm.
  - right. split.
    + destruct H2 as (e & Hin & Ho). exists e. split; [exact Hin|]. rewrite Ho. reflexivity.
    + intros e Hin. destruct (e_or Rops e) eqn:Ho; simpl; [reflexivity|]. apply met_Met. apply H3; assumption.
Qed.

(* what a latch reports *)
Theorem reported_time c H start K (l : latchR) : l_sat Rops l = false ->
  match first_met nm c H start K with
  | Some n => latch_after nm c H start K l = @mkLatch Rops true (cross_time nm c H n)
              /\ (start <= n < start + K)%nat /\ holds c (val nm c H n)
              /\ (forall i, (start <= i < n)%nat -> ~ holds c (val nm c H i))
  | None => latch_after nm c H start K l = l
            /\ (forall i, (start <= i < start + K)%nat -> ~ holds c (val nm c H i))
  end.
Proof.
  intros Hs. unfold latch_after. rewrite Hs.
  destruct (first_met nm c H start K) as [n|] eqn:Hf.
  - split; [reflexivity|]. apply first_met_Some. exact Hf.
  - split; [apply latch_eta; exact Hs|]. apply first_met_None. exact Hf.
Qed.

(* ---- a condition that has been met stays met ---------------------------------------------------- *)
Definition keeps (e e' : entryR) : Prop :=
  e_cond Rops e' = e_cond Rops e /\ e_or Rops e' = e_or Rops e /\
  (l_sat Rops (e_latch Rops e) = true -> e_latch Rops e' = e_latch Rops e).

Lemma test_all_keeps h : forall es es', test_all Rops nm h es = Some es' -> Forall2 keeps es es'.
Proof.
  induction es as [|e es IH]; intros es' Ht; simpl in Ht.
  - inversion Ht. constructor.
  - destruct (test_cond Rops nm (e_cond Rops e) h (e_latch Rops e)) as [l|] eqn:Hc; [|discriminate].
    destruct (test_all Rops nm h es) as [r|] eqn:Hr; [|discriminate].
    inversion Ht; subst es'. constructor; [|apply IH; reflexivity].
    unfold keeps. simpl. split; [reflexivity|]. split; [reflexivity|].
    intros Hs. rewrite (latched_stays nm _ h _ Hs) in Hc. congruence.
Qed.

Lemma keeps_refl es : Forall2 keeps es es.
Proof. induction es; constructor; auto. unfold keeps; auto. Qed.

Lemma keeps_trans a : forall b c, Forall2 keeps a b -> Forall2 keeps b c -> Forall2 keeps a c.
Proof.
  induction a as [|x a IH]; intros b c Hab Hbc.
  - inversion Hab; subst. inversion Hbc; subst. constructor.
  - inversion Hab as [|x0 y a0 b0 Hxy Hab']; subst. inversion Hbc as [|y0 z b1 c0 Hyz Hbc']; subst.
    constructor; [|eapply IH; eauto].
    destruct Hxy as (A1 & A2 & A3). destruct Hyz as (B1 & B2 & B3).
    unfold keeps. split; [congruence|]. split; [congruence|].
    intros Hs. specialize (A3 Hs). rewrite B3; [exact A3|]. rewrite A3. exact Hs.
Qed.

Lemma steps_keeps K : forall h es h' es',
  steps nm next K h es = Some (h', es') -> Forall2 keeps es es'.
Proof.
  induction K as [|K IH]; intros h es h' es' Hs; simpl in Hs.
  - inversion Hs; subst. apply keeps_refl.
  - destruct (test_all Rops nm (snoc_next Rops next h) es) as [es1|] eqn:Et; [|discriminate].
    eapply keeps_trans; [apply (test_all_keeps _ _ _ Et) | eapply IH; eauto].
Qed.

Theorem latched_stays_run K J h es h1 es1 h2 es2 :
  steps nm next K h es = Some (h1, es1) -> steps nm next (K + J) h es = Some (h2, es2) ->
  Forall2 keeps es1 es2.
Proof.
  intros H1 H2. rewrite steps_add, H1 in H2. eapply steps_keeps; eauto.
Qed.

(* ---- termination and absence of exceptions -------------------------------------------------------- *)
Lemma run_never_raises tf : forall fuel h es stop hr,
  h <> [] -> next_ok nm next es -> Forall (fun c => hist_ok nm c h) (conds es) ->
  run Rops nm next fuel tf h es stop <> Raised hr.
Proof.
  induction fuel as [|f IH]; intros h es stop hr Hne Hnext Hok; cbn [run]; [discriminate|].
  destruct (ltb Rops (tm Rops h (length h - 1)) tf && negb stop); [|discriminate].
  assert (Hok' : Forall (fun c => hist_ok nm c (snoc_next Rops next h)) (conds es)).
  { rewrite Forall_forall in *. intros c Hc. apply hist_ok_snoc; [apply Hok; exact Hc | apply Hnext; exact Hc]. }
  rewrite (test_all_map nm _ es (snoc_ne next h) Hok').
  apply IH; [apply snoc_ne | intros c Hc; apply Hnext; rewrite conds_map_entry in Hc; exact Hc
            | rewrite conds_map_entry; exact Hok'].
Qed.

Theorem run_terminates fuel tf h es K :
  h <> [] -> next_ok nm next es -> Forall (fun c => hist_ok nm c h) (conds es) ->
  (K < fuel)%nat ->
  (tf <= tm Rops (hist next K h) (length h + K - 1) \/
   ((1 <= K)%nat /\ stop_flag Rops (entries_after (hist next K h) (length h) K es) = true)) ->
  exists h' es' stopped, run Rops nm next fuel tf h es false = Finished h' es' stopped.
Proof.
  intros Hne Hnext Hok HK Hex.
  pose proof (ne_length h Hne) as Hlen.
  destruct (steps_total nm next K h es Hne Hnext Hok) as (hK & esK & Hs).
  pose proof (steps_hist nm next K _ _ _ _ Hs) as Hh.
  pose proof (steps_entries nm next K _ _ _ _ Hne Hnext Hok Hs) as He.
  replace (length h - 1 + 1)%nat with (length h) in He by lia.
  apply (run_enough_fuel nm next tf fuel h es false K hK esK Hs HK).
  destruct Hex as [Hex|(HK1 & Hex)].
  - left. rewrite Hh, hist_length. exact Hex.
  - right. destruct K; [lia|]. simpl. rewrite He, Hh. exact Hex.
Qed.

End Main.

(* ---- the time-temperature-precipitation calculator ------------------------------------------------ *)
Section TTP.
Variable nm : names.
Variable init : R -> rowR.
Variable nextT : R -> list rowR -> rowR.

(* what identifies a registered condition apart from its latch *)
Definition strip (e : entryR) : condR * bool := (e_cond Rops e, e_or Rops e).

Lemma reset_strip es1 es2 : map strip es1 = map strip es2 ->
  reset_entries Rops es1 = reset_entries Rops es2.
Proof.
  revert es2. induction es1 as [|a es1 IH]; intros [|b es2] Hm; simpl in *; try discriminate; [reflexivity|].
  inversion Hm as [[Hc Ho Hr]]. rewrite (IH _ Hr). unfold strip in *. rewrite Hc, Ho. reflexivity.
Qed.

Lemma strip_reset es : map strip (reset_entries Rops es) = map strip es.
Proof. unfold reset_entries. rewrite map_map. reflexivity. Qed.

Lemma keeps_strip es es' : Forall2 (keeps) es es' -> map strip es' = map strip es.
Proof.
  induction 1 as [|e e' es es' (Hc & Ho & _) _ IH]; simpl; [reflexivity|].
  unfold strip at 1 3. rewrite Hc, Ho, IH. reflexivity.
Qed.

Lemma run_strip next tf : forall fuel h es stop h' es' stopped,
  run Rops nm next fuel tf h es stop = Finished h' es' stopped -> map strip es' = map strip es.
Proof.
  intros fuel h es stop h' es' stopped Hr. apply run_spec in Hr. destruct Hr as (K & Hs & _).
  apply keeps_strip. eapply steps_keeps; eauto.
Qed.

(* reset clears the latches: the outcome for one temperature does not depend on what the
   condition objects recorded before *)
Theorem ttp_after_reset fuel maxTime es1 es2 Temp : map strip es1 = map strip es2 ->
  getStopTime Rops nm init nextT fuel maxTime es1 Temp = getStopTime Rops nm init nextT fuel maxTime es2 Temp.
Proof. intros Hm. unfold getStopTime. rewrite (reset_strip _ _ Hm). reflexivity. Qed.

Lemma getStopTime_strip fuel maxTime es Temp vals es' :
  getStopTime Rops nm init nextT fuel maxTime es Temp = Some (vals, es') -> map strip es' = map strip es.
Proof.
  unfold getStopTime, solve.
  destruct (run Rops nm (nextT Temp) fuel _ _ (reset_entries Rops es) false) as [h1 e1 s1| |] eqn:Hr; try discriminate.
  intros Hs. inversion Hs; subst. apply run_strip in Hr. rewrite Hr. apply strip_reset.
Qed.

(* the row reported for each temperature is the one a run with freshly reset conditions gives *)
Definition fresh_row fuel maxTime es Temp : list R :=
  match getStopTime Rops nm init nextT fuel maxTime (reset_entries Rops es) Temp with
  | Some (vals, _) => vals
  | None => []
  end.

Theorem ttp_rows_fresh fuel maxTime : forall temps es rows,
  calculateTTP Rops nm init nextT fuel maxTime es temps = Some rows ->
  rows = map (fresh_row fuel maxTime es) temps.
Proof.
  induction temps as [|Temp temps IH]; intros es rows Hc; simpl in Hc.
  - inversion Hc. reflexivity.
  - destruct (getStopTime Rops nm init nextT fuel maxTime es Temp) as [[vals es']|] eqn:Hg; [|discriminate].
    destruct (calculateTTP Rops nm init nextT fuel maxTime es' temps) as [rs|] eqn:Hrest; [|discriminate].
    inversion Hc; subst rows. simpl. f_equal.
    + unfold fresh_row. rewrite (ttp_after_reset fuel maxTime (reset_entries Rops es) es Temp (strip_reset es)), Hg.
      reflexivity.
    + rewrite (IH es' rs Hrest). apply map_ext. intros T0. unfold fresh_row.
      rewrite (reset_strip es' es (getStopTime_strip _ _ _ _ _ _ Hg)). reflexivity.
Qed.

(* TTPCalculator registers every condition with mode 'and' *)
(* the registration API: the mode string and its default *)
Lemma register_map (es0 : list entryR) regs :
  register Rops es0 regs =
    es0 ++ map (fun r => @mkEntry Rops (fst (fst r)) (mode_is_or (snd r)) (snd (fst r))) regs.
Proof.
  unfold register. revert es0. induction regs as [|a regs IH]; intros es0; simpl; [rewrite app_nil_r; reflexivity|].
  rewrite IH. unfold add_stopping_condition, add_condition. rewrite <- app_assoc. reflexivity.
Qed.

Lemma mode_default_is_or : mode_is_or None = true /\ mode_is_or (Some "or"%string) = true.
Proof. split; reflexivity. Qed.

Lemma mode_other_is_and s : s <> "or"%string -> mode_is_or (Some s) = false.
Proof. intros Hs. unfold mode_is_or. apply String.eqb_neq. exact Hs. Qed.

(* a condition registered without a mode is registered exactly as with mode 'or' *)
Lemma add_default_is_or (es : list entryR) c l :
  add_stopping_condition Rops es c l None = add_stopping_condition Rops es c l (Some "or"%string)
  /\ add_stopping_condition Rops es c l None = es ++ [@mkEntry Rops c true l].
Proof. split; reflexivity. Qed.

(* conditions that are all or-combined (mode omitted or 'or'): the flag is "any has been met" *)
Lemma stop_iff_all_or H start K (es : list entryR) :
  (forall e, In e es -> e_or Rops e = true) ->
  (stop_flag Rops (entries_after nm H start K es) = true <-> exists e, In e es /\ Met nm H start K e).
Proof.
  intros Hor. rewrite stop_iff. split.
  - intros [(e & Hin & _ & Hm)|((e & Hin & Ho) & _)]; [eauto|]. rewrite (Hor e Hin) in Ho. discriminate.
  - intros (e & Hin & Hm). left. exists e. auto.
Qed.

Lemma register_default_all_or (cs : list (condR * latchR)) e :
  In e (register Rops [] (map (fun cl => (fst cl, snd cl, None)) cs)) -> e_or Rops e = true.
Proof.
  rewrite register_map. simpl. rewrite map_map, in_map_iff. intros (cl & <- & _). reflexivity.
Qed.

Lemma ttp_init_map cs :
  ttp_init Rops cs = map (fun cl => @mkEntry Rops (fst cl) false (snd cl)) cs.
Proof.
  unfold ttp_init, ttp_init_on, clear_conditions. rewrite register_map. simpl. rewrite map_map. reflexivity.
Qed.

(* whatever was registered on the model before is cleared by the calculator *)
Lemma ttp_init_on_clears (es0 : list entryR) cs : ttp_init_on Rops es0 cs = ttp_init Rops cs.
Proof. reflexivity. Qed.

Lemma ttp_init_all_and cs e : In e (ttp_init Rops cs) -> e_or Rops e = false.
Proof. rewrite ttp_init_map, in_map_iff. intros (cl & <- & _). reflexivity. Qed.

Lemma conds_reset es : conds (reset_entries Rops es) = conds es.
Proof. unfold conds, reset_entries. rewrite map_map. reflexivity. Qed.

Lemma latch0_unsat : l_sat Rops (latch0 Rops) = false.
Proof. reflexivity. Qed.
Lemma latch0_time : l_time Rops (latch0 Rops) = -1.
Proof. cbn. lra. Qed.

(* the values _getStopTime returns, and when its run ends *)
Theorem ttp_reported_times fuel maxTime es Temp vals es' :
  next_ok nm (nextT Temp) es -> Forall (fun c => row_ok nm c (first_row Rops init Temp)) (conds es) ->
  (forall e, In e es -> e_or Rops e = false) ->
  getStopTime Rops nm init nextT fuel maxTime es Temp = Some (vals, es') ->
  exists K, let H := hist (nextT Temp) K [first_row Rops init Temp] in
    tm Rops H 0 = 0 /\
    vals = map (fun e => match first_met nm (e_cond Rops e) H 1 K with
                         | Some n => cross_time nm (e_cond Rops e) H n
                         | None => -1 end) es /\
    (forall j, (j < K)%nat -> tm Rops H j < maxTime) /\
    (forall j, (1 <= j < K)%nat ->
       es = [] \/ exists e, In e es /\ first_met nm (e_cond Rops e) H 1 j = None) /\
    (tm Rops H K < maxTime ->
       (0 < K)%nat /\ es <> [] /\ forall e, In e es -> first_met nm (e_cond Rops e) H 1 K <> None).
Proof.
  intros Hnext Hrow Hand Hg. unfold getStopTime, solve in Hg.
  destruct (run Rops nm (nextT Temp) fuel _ _ (reset_entries Rops es) false) as [h1 e1 s1| |] eqn:Hr; try discriminate.
  inversion Hg; subst vals es'. clear Hg.
  assert (Ht0 : tm Rops [first_row Rops init Temp] (length [first_row Rops init Temp] - 1) = 0) by reflexivity.
  rewrite Ht0 in Hr.
  assert (Hn1 : next_ok nm (nextT Temp) (reset_entries Rops es))
    by (unfold next_ok; rewrite conds_reset; exact Hnext).
  assert (Hn2 : Forall (fun c => hist_ok nm c [first_row Rops init Temp]) (conds (reset_entries Rops es))).
  { rewrite conds_reset. rewrite Forall_forall in *. intros c Hc. constructor; [apply Hrow; exact Hc | constructor]. }
  assert (Hn3 : [first_row Rops init Temp] <> []) by discriminate.
  apply (fires_at_first nm (nextT Temp) fuel _ _ _ _ _ _ Hn3 Hn1 Hn2) in Hr.
  cbv zeta in Hr. destruct Hr as (K & Hh & Hl & He & Hst & Hend & Hbefore & Hnostop).
  simpl length in *. exists K. cbv zeta. rewrite <- Hh.
  assert (Hlat : forall e k, l_time Rops (e_latch Rops (entry_after nm h1 1 k (@mkEntry Rops (e_cond Rops e) (e_or Rops e) (latch0 Rops))))
            = match first_met nm (e_cond Rops e) h1 1 k with Some n => cross_time nm (e_cond Rops e) h1 n | None => -1 end).
  { intros e k. unfold entry_after, latch_after. simpl. destruct (first_met nm (e_cond Rops e) h1 1 k); simpl; lra. }
  assert (Hsat : forall e k, l_sat Rops (e_latch Rops (entry_after nm h1 1 k (@mkEntry Rops (e_cond Rops e) (e_or Rops e) (latch0 Rops))))
            = match first_met nm (e_cond Rops e) h1 1 k with Some _ => true | None => false end).
  { intros e k. unfold entry_after, latch_after. simpl. destruct (first_met nm (e_cond Rops e) h1 1 k); reflexivity. }
  (* the flag after k steps, for all-'and' conditions *)
  assert (Hflag : forall k, stop_flag Rops (entries_after nm h1 1 k (reset_entries Rops es)) = true ->
            es <> [] /\ forall e, In e es -> first_met nm (e_cond Rops e) h1 1 k <> None).
  { intros k Hf. rewrite stop_flag_spec in Hf. unfold exOr, anyAnd, allAnd, entries_after, reset_entries in Hf.
    rewrite !map_map in Hf. apply orb_true_iff in Hf. destruct Hf as [Hf|Hf].
    - exfalso. apply existsb_exists in Hf. destruct Hf as (x & Hin & Hb). apply in_map_iff in Hin.
      destruct Hin as (e & <- & Hin). simpl in Hb. rewrite (Hand e Hin) in Hb. discriminate.
    - apply andb_true_iff in Hf. destruct Hf as (Hany & Hall). split.
      + intros ->. simpl in Hany. discriminate.
      + intros e Hin. rewrite forallb_forall in Hall.
        assert (Hi : In (entry_after nm h1 1 k (@mkEntry Rops (e_cond Rops e) (e_or Rops e) (latch0 Rops)))
                        (map (fun x => entry_after nm h1 1 k (@mkEntry Rops (e_cond Rops x) (e_or Rops x) (latch0 Rops))) es))
          by (apply in_map_iff; exists e; auto).
        specialize (Hall _ Hi). rewrite Hsat in Hall. cbn [e_or entry_after] in Hall. rewrite (Hand e Hin) in Hall.
        destruct (first_met nm (e_cond Rops e) h1 1 k); [discriminate | simpl in Hall; discriminate]. }
  split; [| split; [| split; [| split]]].
  - rewrite Hh. rewrite (tm_ext _ [first_row Rops init Temp] 0); [reflexivity|].
    apply hist_prefix. simpl. lia.
  - rewrite He. unfold entries_after, reset_entries. rewrite !map_map. apply map_ext. intros e. apply Hlat.
  - intros j Hj. specialize (Hbefore j Hj). replace (1 + j - 1)%nat with j in Hbefore by lia.
    Rnorm. lra.
  - intros j Hj. specialize (Hnostop j Hj).
    destruct es as [|e0 es0]; [left; reflexivity | right].
    (* some condition is still unmet, otherwise the flag would be true *)
    rewrite stop_flag_spec in Hnostop. unfold exOr, anyAnd, allAnd, entries_after, reset_entries in Hnostop.
    rewrite !map_map in Hnostop. apply orb_false_iff in Hnostop. destruct Hnostop as (_ & Hn).
    apply andb_false_iff in Hn. destruct Hn as [Hn|Hn].
    + exfalso. simpl in Hn. rewrite (Hand e0 (or_introl eq_refl)) in Hn. discriminate.
    + assert (Hex : exists e, In e (e0 :: es0) /\ first_met nm (e_cond Rops e) h1 1 j = None).
      { revert Hn Hand. generalize (e0 :: es0). intros L. induction L as [|x L IH]; intros Hn Hand'; simpl in Hn; [discriminate|].
        apply andb_false_iff in Hn. destruct Hn as [Hn|Hn].
        - exists x. split; [left; reflexivity|]. rewrite (Hand' x (or_introl eq_refl)) in Hn. simpl in Hn.
          unfold latch_after in Hn. simpl in Hn. destruct (first_met nm (e_cond Rops x) h1 1 j); [discriminate|reflexivity].
        - destruct (IH Hn (fun e Hin => Hand' e (or_intror Hin))) as (e & Hin & Hf). exists e. split; [right; exact Hin | exact Hf]. }
      exact Hex.
  - intros Hlt.
    assert (Hs1 : s1 = true).
    { destruct s1; [reflexivity|]. specialize (Hend eq_refl). replace (1 + K - 1)%nat with K in Hend by lia. Rnorm. lra. }
    rewrite Hs1 in Hst. symmetry in Hst. apply andb_true_iff in Hst. destruct Hst as (HK & Hf).
    apply Nat.ltb_lt in HK. split; [exact HK|]. apply Hflag. exact Hf.
Qed.

End TTP.
