(* C19 - Stopping conditions stop the run when, and only when, they are met.
   This file contains ONLY the property theorems; each is closed by [exact] of a lemma of Proofs.v
   and followed by Print Assumptions.  All statements are about the real-number instance [Rops]
   of the model in Model.v (StoppingConditions.py, KWNBase.postProcess/reset, DESolver.solve,
   TimeTemperaturePrecipitation.py of the repaired tree).  The physics is the arbitrary function
   [next] (the recorded row that follows a recorded history): every theorem holds for all of them.

   Vocabulary (Proofs.v): [val nm c H n] = the monitored quantity of condition c at recorded step n
   of history H; [holds c v] = v satisfies the (strict) inequality of c; [cross_time nm c H n] = the
   time reported when c is first found to hold at step n; [first_met nm c H start K] = the first
   step in start..start+K-1 at which c holds; [latch_after]/[entries_after] = the latch a condition
   / all registered conditions must hold after the steps start..start+K-1 according to the property
   text; [hist next K h] = h extended by K recorded steps; [steps] = K iterations of the loop body. *)
From Coq Require Import String Reals List Bool Arith.
Require Import Kawin.Common.Ops Kawin.Common.Vec Kawin.C19.Model Kawin.C19.Proofs Kawin.C19.Bridge.
Import ListNotations.
Open Scope R_scope.

(* ---- a condition that has been met stays met -------------------------------------------------- *)
Theorem C19_latched_stays nm c H (l : latchR) :
  l_sat Rops l = true -> test_cond Rops nm c H l = Some l.
Proof. exact (latched_stays nm c H l). Qed.
Print Assumptions C19_latched_stays.

(* ... over a run: whatever is satisfied after K steps is unchanged (flag and time) after K+J steps *)
Theorem C19_latched_stays_run nm next K J h es h1 es1 h2 es2 :
  steps nm next K h es = Some (h1, es1) -> steps nm next (K + J) h es = Some (h2, es2) ->
  Forall2 (fun e e' => e_cond Rops e' = e_cond Rops e /\ e_or Rops e' = e_or Rops e /\
                       (l_sat Rops (e_latch Rops e) = true -> e_latch Rops e' = e_latch Rops e)) es1 es2.
Proof. exact (latched_stays_run nm next K J h es h1 es1 h2 es2). Qed.
Print Assumptions C19_latched_stays_run.

(* one call of testCondition on an unsatisfied condition *)
Theorem C19_test_condition nm c H (l : latchR) : hist_ok nm c H -> H <> [] -> l_sat Rops l = false ->
  let n := (length H - 1)%nat in
  test_cond Rops nm c H l =
    Some (if compare Rops c (val nm c H n) then @mkLatch Rops true (cross_time nm c H n)
          else @mkLatch Rops false (l_time Rops l)).
Proof. exact (test_cond_spec nm c H l). Qed.
Print Assumptions C19_test_condition.

(* ---- the reported time lies within the step, by linear interpolation ---------------------------- *)
(* both inequalities (holds/cross_time branch on c_ineq); no assumption on the previous value *)
Theorem C19_crossing_time_in_step nm c H n : (0 < n)%nat ->
  tm Rops H (n - 1) <= tm Rops H n ->
  holds c (val nm c H n) ->
  tm Rops H (n - 1) <= cross_time nm c H n <= tm Rops H n.
Proof. exact (cross_time_in_step nm c H n). Qed.
Print Assumptions C19_crossing_time_in_step.

(* when the quantity crossed the threshold on this step, the straight line through the two recorded
   points takes the threshold value at the reported time *)
Theorem C19_crossing_time_on_chord nm c H n : (0 < n)%nat ->
  ~ holds c (val nm c H (n - 1)) -> holds c (val nm c H n) ->
  let tp := tm Rops H (n - 1) in let tc := tm Rops H n in
  let xp := val nm c H (n - 1) in let xc := val nm c H n in
  (xc - xp) * (cross_time nm c H n - tp) = (c_value Rops c - xp) * (tc - tp).
Proof. exact (cross_time_on_chord nm c H n). Qed.
Print Assumptions C19_crossing_time_on_chord.

Theorem C19_crossing_time_strict nm c H n : (0 < n)%nat ->
  tm Rops H (n - 1) < tm Rops H n ->
  val nm c H (n - 1) <> c_value Rops c -> ~ holds c (val nm c H (n - 1)) ->
  holds c (val nm c H n) ->
  tm Rops H (n - 1) < cross_time nm c H n < tm Rops H n.
Proof. exact (cross_time_strict nm c H n). Qed.
Print Assumptions C19_crossing_time_strict.

(* no crossing on this step (already met on the previous recorded step): the previous time *)
Theorem C19_already_met_time nm c H n : (0 < n)%nat -> holds c (val nm c H (n - 1)) ->
  cross_time nm c H n = tm Rops H (n - 1).
Proof. exact (cross_time_already_met nm c H n). Qed.
Print Assumptions C19_already_met_time.

(* what a condition reports after the steps start .. start+K-1: unchanged (-1 after a reset) when the
   quantity never satisfied it, else the crossing time of the FIRST step at which it did *)
Theorem C19_reported_time nm c H start K (l : latchR) : l_sat Rops l = false ->
  match first_met nm c H start K with
  | Some n => latch_after nm c H start K l = @mkLatch Rops true (cross_time nm c H n)
              /\ (start <= n < start + K)%nat /\ holds c (val nm c H n)
              /\ (forall i, (start <= i < n)%nat -> ~ holds c (val nm c H i))
  | None => latch_after nm c H start K l = l
            /\ (forall i, (start <= i < start + K)%nat -> ~ holds c (val nm c H i))
  end.
Proof. exact (reported_time nm c H start K l). Qed.
Print Assumptions C19_reported_time.

(* ---- or / and combination ------------------------------------------------------------------------ *)
(* the flag postProcess returns = some 'or' condition has been met, or there is an 'and' condition
   and all 'and' conditions have been met *)
Theorem C19_stop_iff nm H start K es :
  stop_flag Rops (entries_after nm H start K es) = true <->
    (exists e, In e es /\ e_or Rops e = true /\ Met nm H start K e) \/
    ((exists e, In e es /\ e_or Rops e = false) /\
     forall e, In e es -> e_or Rops e = false -> Met nm H start K e).
Proof. exact (stop_iff nm H start K es). Qed.
Print Assumptions C19_stop_iff.

(* ---- the run ends at the first step at which the combination holds, otherwise at the end time ---- *)
(* A finished run recorded K further steps; the conditions hold exactly what the property text
   prescribes for those steps; it was stopped iff K > 0 and the combination holds after step K; if it
   was not stopped the end time was reached; before every one of the K steps the end time had not
   been reached, and after none of the earlier steps did the combination hold. *)
Theorem C19_fires_at_first nm next fuel tf h es h' es' stopped :
  h <> [] -> next_ok nm next es -> Forall (fun c => hist_ok nm c h) (conds es) ->
  run Rops nm next fuel tf h es false = Finished h' es' stopped ->
  let n0 := length h in
  exists K,
    h' = hist next K h /\ length h' = (n0 + K)%nat /\
    es' = entries_after nm h' n0 K es /\
    stopped = (0 <? K)%nat && stop_flag Rops (entries_after nm h' n0 K es) /\
    (stopped = false -> tf <= tm Rops h' (n0 + K - 1)) /\
    (forall j, (j < K)%nat -> tm Rops h' (n0 + j - 1) < tf) /\
    (forall j, (1 <= j < K)%nat -> stop_flag Rops (entries_after nm h' n0 j es) = false).
Proof. exact (fires_at_first nm next fuel tf h es h' es' stopped). Qed.
Print Assumptions C19_fires_at_first.

(* the loop finishes (fuel is only a device of the model) as soon as some state within the fuel
   reaches the end time or satisfies the combination, and no exception leaves it when the phase /
   element selections resolve *)
Theorem C19_run_terminates nm next fuel tf h es K :
  h <> [] -> next_ok nm next es -> Forall (fun c => hist_ok nm c h) (conds es) ->
  (K < fuel)%nat ->
  (tf <= tm Rops (hist next K h) (length h + K - 1) \/
   ((1 <= K)%nat /\ stop_flag Rops (entries_after nm (hist next K h) (length h) K es) = true)) ->
  exists h' es' stopped, run Rops nm next fuel tf h es false = Finished h' es' stopped.
Proof. exact (run_terminates nm next fuel tf h es K). Qed.
Print Assumptions C19_run_terminates.

Theorem C19_run_never_raises nm next tf fuel h es stop hr :
  h <> [] -> next_ok nm next es -> Forall (fun c => hist_ok nm c h) (conds es) ->
  run Rops nm next fuel tf h es stop <> Raised hr.
Proof. exact (run_never_raises nm next tf fuel h es stop hr). Qed.
Print Assumptions C19_run_never_raises.

(* ---- any phase or element selection, in whichever model polls the condition ---------------------- *)
(* The watched column is the FIRST position of the selected name in the polling model's own list of
   phases (elements for a composition condition); nothing is remembered from another model or an earlier
   poll (test_cond / run take the names of the current model as an argument and the condition carries only
   the name).  No selection = column 0. *)
Theorem C19_selection_by_name nm (c : condR) :
  match c_sel Rops c with
  | None => sel_index Rops nm c = Some 0%nat
  | Some s => forall p, sel_index Rops nm c = Some p ->
                nth_error (name_list nm c) p = Some s /\
                forall j, (j < p)%nat -> nth_error (name_list nm c) j <> Some s
  end.
Proof. exact (selection_by_name nm c). Qed.
Print Assumptions C19_selection_by_name.

Theorem C19_poll_column nm (c : condR) H n p r :
  sel_index Rops nm c = Some p -> nth_error H n = Some r ->
  poll Rops nm c H n = nth_error (column Rops (c_q Rops c) r) p.
Proof. exact (poll_column nm c H n p r). Qed.
Print Assumptions C19_poll_column.

(* ---- registering conditions: the mode argument and its default --------------------------------- *)
(* addStoppingCondition(condition, mode = 'or'): omitting the mode registers the condition exactly as
   mode 'or' does (or-combined); any other string registers it as and-combined *)
Theorem C19_default_mode_is_or (es : list entryR) c l :
  add_stopping_condition Rops es c l None = add_stopping_condition Rops es c l (Some "or"%string)
  /\ add_stopping_condition Rops es c l None = es ++ [@mkEntry Rops c true l].
Proof. exact (add_default_is_or es c l). Qed.
Print Assumptions C19_default_mode_is_or.

Theorem C19_mode_other_is_and s : s <> "or"%string -> mode_is_or (Some s) = false.
Proof. exact (mode_other_is_and s). Qed.
Print Assumptions C19_mode_other_is_and.

Theorem C19_register (es0 : list entryR) regs :
  register Rops es0 regs =
    es0 ++ map (fun r => @mkEntry Rops (fst (fst r)) (mode_is_or (snd r)) (snd (fst r))) regs.
Proof. exact (register_map es0 regs). Qed.
Print Assumptions C19_register.

(* conditions registered without a mode on an empty list are all or-combined, and for or-combined
   conditions the stop flag is "ANY of them has been met" (with C19_fires_at_first: such a run ends at the
   first step at which any one of them holds) *)
Theorem C19_register_default_all_or (cs : list (condR * latchR)) e :
  In e (register Rops [] (map (fun cl => (fst cl, snd cl, None)) cs)) -> e_or Rops e = true.
Proof. exact (register_default_all_or cs e). Qed.
Print Assumptions C19_register_default_all_or.

Theorem C19_stop_iff_all_or nm H start K (es : list entryR) :
  (forall e, In e es -> e_or Rops e = true) ->
  (stop_flag Rops (entries_after nm H start K es) = true <-> exists e, In e es /\ Met nm H start K e).
Proof. exact (stop_iff_all_or nm H start K es). Qed.
Print Assumptions C19_stop_iff_all_or.

(* ---- the time-temperature-precipitation calculator ----------------------------------------------- *)
(* every condition is registered with mode 'and' *)
Theorem C19_ttp_registers_and cs e : In e (ttp_init Rops cs) -> e_or Rops e = false.
Proof. exact (ttp_init_all_and cs e). Qed.
Print Assumptions C19_ttp_registers_and.

(* ... after clearing whatever was registered on the model before *)
Theorem C19_ttp_clears_previous (es0 : list entryR) cs : ttp_init_on Rops es0 cs = ttp_init Rops cs.
Proof. exact (ttp_init_on_clears es0 cs). Qed.
Print Assumptions C19_ttp_clears_previous.

(* reset clears the latches: what is reported for a temperature does not depend on what the same
   condition objects recorded before (strip = a registered condition without its latch) *)
Theorem C19_ttp_reports_after_reset nm init nextT fuel maxTime es1 es2 Temp :
  map strip es1 = map strip es2 ->
  getStopTime Rops nm init nextT fuel maxTime es1 Temp = getStopTime Rops nm init nextT fuel maxTime es2 Temp.
Proof. exact (ttp_after_reset nm init nextT fuel maxTime es1 es2 Temp). Qed.
Print Assumptions C19_ttp_reports_after_reset.

(* the table of calculateTTP: each row is what a run with freshly reset conditions reports *)
Theorem C19_ttp_rows_fresh nm init nextT fuel maxTime temps es rows :
  calculateTTP Rops nm init nextT fuel maxTime es temps = Some rows ->
  rows = map (fresh_row nm init nextT fuel maxTime es) temps.
Proof. exact (ttp_rows_fresh nm init nextT fuel maxTime temps es rows). Qed.
Print Assumptions C19_ttp_rows_fresh.

(* ... and that row is: for every condition the crossing time of the first step at which it held in
   the run of this temperature (started at time 0), -1 if it never did; the run went on while the
   end time was not reached and some condition was unmet, and if it ended before the end time every
   condition had been met *)
Theorem C19_ttp_reported_times nm init nextT fuel maxTime es Temp vals es' :
  next_ok nm (nextT Temp) es -> Forall (fun c => row_ok nm c (first_row Rops init Temp)) (conds es) ->
  (forall e, In e es -> e_or Rops e = false) ->
  getStopTime Rops nm init nextT fuel maxTime es Temp = Some (vals, es') ->
  exists K, let H := hist (nextT Temp) K [first_row Rops init Temp] in
    tm Rops H 0 = 0 /\
    vals = map (fun e => match first_met nm (e_cond Rops e) H 1 K with
                         | Some n => cross_time nm (e_cond Rops e) H n
                         | None => -1 end) es /\
    (forall j, (j < K)%nat -> tm Rops H j < maxTime) /\
    (forall j, (1 <= j < K)%nat ->
       es = [] \/ exists e, In e es /\ first_met nm (e_cond Rops e) H 1 j = None) /\
    (tm Rops H K < maxTime ->
       (0 < K)%nat /\ es <> [] /\ forall e, In e es -> first_met nm (e_cond Rops e) H 1 K <> None).
Proof. exact (ttp_reported_times nm init nextT fuel maxTime es Temp vals es'). Qed.
Print Assumptions C19_ttp_reported_times.

(* ---- the executed instance is the proved instance ------------------------------------------------- *)
(* What the correspondence check evaluates with vm_compute on exact rationals is, through Q2R, the value
   of the real-number model these theorems are about (no side condition: the interpolation divides by a
   non-zero number whenever that branch is taken). *)
Theorem C19_Q_test_condition_is_R nm c h l :
  test_cond Rops nm (condQ2R c) (map rowQ2R h) (latchQ2R l) = option_map latchQ2R (test_cond Qops nm c h l).
Proof. exact (test_cond_hom nm c h l). Qed.
Print Assumptions C19_Q_test_condition_is_R.

Theorem C19_Q_solve_is_R nm nextQ nextR (next_hom : forall h, nextR (map rowQ2R h) = rowQ2R (nextQ h))
  fuel simTime h es :
  solve Rops nm nextR fuel (Q2R simTime) (map rowQ2R h) (map entryQ2R es)
  = outcomeQ2R (solve Qops nm nextQ fuel simTime h es).
Proof. exact (solve_hom nm nextQ nextR next_hom fuel simTime h es). Qed.
Print Assumptions C19_Q_solve_is_R.
