(* C19 - the exact-rational instance of the model (the one executed by the correspondence check) IS the
   real-number instance (the one the theorems are about) on rational data: Q2R commutes with
   testCondition, the postProcess loop, the solver loop and solve.  Holds without side conditions: the
   only division (interpolation) has a non-zero divisor whenever its branch is taken. *)
From Coq Require Import String Reals QArith Qreals List Bool Arith Lia Lra.
Require Import Kawin.Common.Ops Kawin.Common.Vec Kawin.C19.Model.
Import ListNotations.

Definition rowQ2R (r : row Qops) : row Rops :=
  @mkRow Rops (Q2R (r_time Qops r)) (map Q2R (r_volFrac Qops r)) (map Q2R (r_Ravg Qops r))
         (map Q2R (r_dG Qops r)) (map Q2R (r_nucRate Qops r)) (map Q2R (r_density Qops r))
         (map Q2R (r_comp Qops r)).
Definition condQ2R (c : cond Qops) : cond Rops :=
  @mkCond Rops (c_q Qops c) (c_ineq Qops c) (Q2R (c_value Qops c)) (c_sel Qops c).
Definition latchQ2R (l : latch Qops) : latch Rops := @mkLatch Rops (l_sat Qops l) (Q2R (l_time Qops l)).
Definition entryQ2R (e : entry Qops) : entry Rops :=
  @mkEntry Rops (condQ2R (e_cond Qops e)) (e_or Qops e) (latchQ2R (e_latch Qops e)).
Definition outcomeQ2R (o : outcome Qops) : outcome Rops :=
  match o with
  | Finished h es s => Finished (map rowQ2R h) (map entryQ2R es) s
  | Raised h => Raised (map rowQ2R h)
  | OutOfFuel => OutOfFuel
  end.

Lemma column_hom q r : column Rops q (rowQ2R r) = map Q2R (column Qops q r).
Proof. destruct q; reflexivity. Qed.

Lemma sel_index_hom nm c : sel_index Rops nm (condQ2R c) = sel_index Qops nm c.
Proof. reflexivity. Qed.

Lemma poll_hom nm c h n :
  poll Rops nm (condQ2R c) (map rowQ2R h) n = option_map Q2R (poll Qops nm c h n).
Proof.
  unfold poll. rewrite sel_index_hom. destruct (sel_index Qops nm c) as [p|]; [|reflexivity].
  rewrite nth_error_map. destruct (nth_error h n) as [r|]; simpl; [|reflexivity].
  rewrite column_hom, nth_error_map. reflexivity.
Qed.

Lemma compare_hom c v : compare Rops (condQ2R c) (Q2R v) = compare Qops c v.
Proof. unfold compare. simpl. destruct (c_ineq Qops c); symmetry; apply hom_ltb. Qed.

Lemma tm_hom h n : tm Rops (map rowQ2R h) n = Q2R (tm Qops h n).
Proof.
  unfold tm. destruct (Nat.lt_ge_cases n (length h)) as [Hn|Hn].
  - rewrite (nth_indep _ (dummy_row Rops) (rowQ2R (dummy_row Qops))) by (rewrite map_length; exact Hn).
    rewrite map_nth. reflexivity.
  - rewrite !nth_overflow by (try rewrite map_length; exact Hn). simpl. symmetry. apply hom_zero.
Qed.

Lemma Q2R_nonzero a b : Q2R a <> Q2R b -> ~ (sub Qops a b == 0)%Q.
Proof.
  intros Hne Hz. apply Qeq_eqR in Hz. rewrite hom_sub in Hz. cbn [sub Rops] in Hz.
  replace (Q2R 0) with 0%R in Hz by (unfold Q2R; simpl; lra). apply Hne. lra.
Qed.

Lemma test_cond_hom nm c h l :
  test_cond Rops nm (condQ2R c) (map rowQ2R h) (latchQ2R l) = option_map latchQ2R (test_cond Qops nm c h l).
Proof.
  unfold test_cond. cbn [l_sat latchQ2R]. destruct (l_sat Qops l); [reflexivity|].
  rewrite map_length, poll_hom. destruct (poll Qops nm c h (length h - 1)) as [cur|]; [|reflexivity].
  cbn [option_map]. rewrite compare_hom. destruct (compare Qops c cur) eqn:Hc; [|reflexivity].
  destruct (0 <? length h - 1)%nat.
  - rewrite poll_hom. destruct (poll Qops nm c h (length h - 1 - 1)) as [prev|]; [|reflexivity].
    cbn [option_map]. rewrite compare_hom. destruct (compare Qops c prev) eqn:Hp.
    + unfold latchQ2R. cbn [l_sat l_time]. rewrite tm_hom. reflexivity.
    + unfold latchQ2R. cbn [l_sat l_time]. f_equal.
      assert (Hne : Q2R cur <> Q2R prev).
      { rewrite <- compare_hom in Hc, Hp. unfold compare in Hc, Hp. cbn [c_ineq c_value condQ2R] in Hc, Hp.
        destruct (c_ineq Qops c); cbn [ltb Rops] in Hc, Hp;
          apply Rltb_true in Hc; apply Rltb_false in Hp; lra. }
      rewrite hom_add, (hom_dvd _ _ (Q2R_nonzero _ _ Hne)), hom_mul, !hom_sub, !tm_hom. reflexivity.
  - unfold latchQ2R. cbn [l_sat l_time]. rewrite tm_hom. reflexivity.
Qed.

Lemma test_all_hom nm h es :
  test_all Rops nm (map rowQ2R h) (map entryQ2R es) = option_map (map entryQ2R) (test_all Qops nm h es).
Proof.
  induction es as [|e es IH]; [reflexivity|]. cbn [map test_all]. cbn [entryQ2R e_cond e_latch e_or].
  rewrite test_cond_hom. destruct (test_cond Qops nm (e_cond Qops e) h (e_latch Qops e)) as [l|]; [|reflexivity].
  cbn [option_map]. rewrite IH. destruct (test_all Qops nm h es); reflexivity.
Qed.

Lemma stop_acc_hom acc e : stop_acc Rops acc (entryQ2R e) = stop_acc Qops acc e.
Proof. destruct acc as [[o a] k]. reflexivity. Qed.

Lemma stop_flag_hom es : stop_flag Rops (map entryQ2R es) = stop_flag Qops es.
Proof.
  unfold stop_flag. generalize (false, true, 0%nat). induction es as [|e es IH]; intros acc; [reflexivity|].
  cbn [map fold_left]. rewrite stop_acc_hom. apply IH.
Qed.

Section RunHom.
Variable nm : names.
Variable nextQ : list (row Qops) -> row Qops.
Variable nextR : list (row Rops) -> row Rops.
Hypothesis next_hom : forall h, nextR (map rowQ2R h) = rowQ2R (nextQ h).

Lemma snoc_hom h : snoc_next Rops nextR (map rowQ2R h) = map rowQ2R (snoc_next Qops nextQ h).
Proof. unfold snoc_next. rewrite map_app, next_hom. reflexivity. Qed.

Lemma run_hom tf : forall fuel h es stop,
  run Rops nm nextR fuel (Q2R tf) (map rowQ2R h) (map entryQ2R es) stop
  = outcomeQ2R (run Qops nm nextQ fuel tf h es stop).
Proof.
  induction fuel as [|f IH]; intros h es stop; [reflexivity|]. cbn [run].
  rewrite map_length, tm_hom, <- hom_ltb.
  destruct (ltb Qops (tm Qops h (length h - 1)) tf && negb stop); [|reflexivity].
  rewrite snoc_hom, test_all_hom.
  destruct (test_all Qops nm (snoc_next Qops nextQ h) es) as [es'|]; [|reflexivity].
  cbn [option_map]. rewrite stop_flag_hom. apply IH.
Qed.

Theorem solve_hom fuel simTime h es :
  solve Rops nm nextR fuel (Q2R simTime) (map rowQ2R h) (map entryQ2R es)
  = outcomeQ2R (solve Qops nm nextQ fuel simTime h es).
Proof.
  unfold solve. rewrite map_length, tm_hom, <- hom_add. apply run_hom.
Qed.

End RunHom.
