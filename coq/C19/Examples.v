(* C19 - non-vacuity examples and refutation witnesses. *)
From Coq Require Import String Reals QArith List ZArith Bool Lra Lia.
Require Import Kawin.Common.Ops Kawin.Common.Vec Kawin.C19.Model Kawin.C19.Proofs Kawin.C19.Corr.
Import ListNotations.
Open Scope string_scope.

(* ---- executable instance: the model evaluated on exact rationals --------------------------------- *)
Open Scope Q_scope.

Definition nmQ : names := mkNames ["B1"; "B2"] ["B"; "C"].
(* time, volFrac[B1,B2], Ravg, dG, nucRate, density, composition[B,C] *)
Definition rq (tq v1 v2 x : Q) : rowQ := R_ tq [v1; v2] [0; 0] [1; 1] [0; 0] [0; 0] [x; 0].
Definition rowsQ : list rowQ :=
  [rq 0 0 0 (1#50); rq 1 (1#10) 0 (1#50); rq 2 (3#10) (2#10) (1#60); rq 3 (5#10) (4#10) (1#70); rq 4 (1#10) (6#10) (1#80)].

Definition fresh (c : condQ) (o : bool) : entryQ := E_ c o (latch0 Qops).
Definition timesQ (es : list entryQ) : list (bool * Q) :=
  map (fun e => (l_sat Qops (e_latch Qops e), l_time Qops (e_latch Qops e))) es.
Definition solveQ (simTime : Q) (es : list entryQ) :=
  match solve Qops nmQ (next_from rowsQ) 10 simTime (firstn 1 rowsQ) es with
  | Finished h es' s => Some (length h, s, timesQ es')
  | _ => None
  end.

(* an 'or' condition met early: the run ends on the step of the crossing, time by interpolation *)
Example or_stops_at_crossing :
  solveQ 4 [fresh (C_ VolFrac GreaterThan (2#10) (Some "B1")) true]
  = Some (3%nat, true, [(true, 3#2)]).
Proof. vm_compute. reflexivity. Qed.

(* never met: runs to the end time, reports -1 *)
Example never_met_runs_to_end :
  solveQ 4 [fresh (C_ VolFrac GreaterThan 9 None) true] = Some (5%nat, false, [(false, -1)]).
Proof. vm_compute. reflexivity. Qed.

(* two 'and' conditions: the run goes on until both have been met; the first one keeps its time although
   the quantity falls below the threshold again (volFrac[B1] = 0.1 at step 4) *)
Example and_waits_for_all :
  solveQ 4 [fresh (C_ VolFrac GreaterThan (4#10) (Some "B1")) false;
            fresh (C_ VolFrac GreaterThan (5#10) (Some "B2")) false]
  = Some (5%nat, true, [(true, 5#2); (true, 7#2)]).
Proof. vm_compute. reflexivity. Qed.

(* an unmet 'and' condition does not block an 'or' condition; a lone unsatisfied 'or' does not stop *)
Example or_and_mix :
  solveQ 4 [fresh (C_ VolFrac GreaterThan 9 None) false;
            fresh (C_ Composition LesserThan (1#65) (Some "B")) true]
  = Some (4%nat, true, [(false, -1); (true, 33#13)]).
Proof. vm_compute. reflexivity. Qed.

(* two conditions registered WITHOUT a mode are or-combined: the run ends when the first one is met
   although the second never is; the same two registered with 'and' run to the end time *)
Example default_mode_is_any :
  solveQ 4 (registered [Reg_ (C_ VolFrac GreaterThan (2#10) (Some "B1")) (latch0 Qops) None;
                        Reg_ (C_ VolFrac GreaterThan 9 None) (latch0 Qops) None])
  = Some (3%nat, true, [(true, 3#2); (false, -1)])
  /\
  solveQ 4 (registered [Reg_ (C_ VolFrac GreaterThan (2#10) (Some "B1")) (latch0 Qops) (Some "and");
                        Reg_ (C_ VolFrac GreaterThan 9 None) (latch0 Qops) (Some "and")])
  = Some (5%nat, false, [(true, 3#2); (false, -1)]).
Proof. vm_compute. split; reflexivity. Qed.

(* strict inequality: a value equal to the threshold does not satisfy it *)
Example tie_is_not_met :
  solveQ 2 [fresh (C_ VolFrac GreaterThan (3#10) (Some "B1")) true] = Some (3%nat, false, [(false, -1)]).
Proof. vm_compute. reflexivity. Qed.

(* threshold met by the initial state (never tested itself): the run ends after the first step and the
   previous recorded time is reported (repaired behaviour) *)
Example already_met_reports_previous_time :
  solveQ 4 [fresh (C_ VolFrac LesserThan (1#2) None) true] = Some (2%nat, true, [(true, 0)]).
Proof. vm_compute. reflexivity. Qed.

(* unknown phase name: the indexing raises *)
Example unknown_phase_raises :
  solveQ 4 [fresh (C_ VolFrac GreaterThan (2#10) (Some "B9")) true] = None.
Proof. vm_compute. reflexivity. Qed.

(* direct call at n = 0 reports the only recorded time *)
Example call_at_n0 :
  test_cond Qops nmQ (C_ DrivingForce GreaterThan (1#2) None) (firstn 1 rowsQ) (latch0 Qops)
  = Some (L_ true 0).
Proof. vm_compute. reflexivity. Qed.

(* TTP: a stale latch (satisfied, time 5) does not leak into the table; the second temperature never
   meets the condition and reports -1 *)
Definition rowsCold : list rowQ := [rq 0 0 0 (1#50); rq 1 (1#100) 0 (1#50); rq 2 (2#100) 0 (1#50)].
Example ttp_resets :
  calculateTTP Qops nmQ (fun Temp => hd (dummy_row Qops) (lookup [(700, rowsQ); (600, rowsCold)] Temp))
    (fun Temp h => next_from (lookup [(700, rowsQ); (600, rowsCold)] Temp) h) 10 2
    (ttp_init Qops [(C_ VolFrac GreaterThan (2#10) (Some "B1"), L_ true 5)]) [700; 600; 700]
  = Some [[3#2]; [-1]; [3#2]].
Proof. vm_compute. reflexivity. Qed.

(* ---- refutation witnesses: the formula of the tree before fixes/C19-stopcond-already-met-time.patch -- *)
(* (before fixes/C19-stopcond-pdata-attrs.patch every call raised AttributeError: nothing to model) *)
Definition time_before_repair (tp tc v xp xc : Q) : Q := (tc - tp) * (v - xp) / (xc - xp) + tp.
Example extrapolation_before_repair_refuted :
  exists tp tc v xp xc : Q, xp < v /\ xc < v (* "less than v" already met at the previous step *) /\ tp < tc /\
    ~ (tp <= time_before_repair tp tc v xp xc <= tc).
Proof.
  exists 0, 1, (1#2), 0, (1#4). repeat split; try reflexivity.
  intros [_ H]. vm_compute in H. apply H. reflexivity.
Qed.
Close Scope Q_scope.

(* ---- the hypotheses of the theorems are satisfiable (real instance) --------------------------------- *)
Open Scope R_scope.

Definition nmR : names := mkNames ["B1"] ["B"].
Definition rr (tr v : R) : rowR := @mkRow Rops tr [v] [0] [1] [0] [0] [0].
Definition cR : condR := @mkCond Rops VolFrac GreaterThan (/ 4) (Some "B1").
Definition nextR (h : list rowR) : rowR := rr (INR (length h)) (INR (length h)).
Definition esR : list entryR := [@mkEntry Rops cR true (latch0 Rops)].
Definition hR : list rowR := [rr 0 0].

Lemma row_ok_rr tr v : row_ok nmR cR (rr tr v).
Proof. exists 0%nat. split; [reflexivity | simpl; lia]. Qed.

Example hypotheses_satisfiable :
  hR <> [] /\ next_ok nmR nextR esR /\ Forall (fun c => hist_ok nmR c hR) (conds esR).
Proof.
  split; [discriminate|]. split.
  - intros c [<-|[]] h. apply row_ok_rr.
  - constructor; [|constructor]. constructor; [apply row_ok_rr | constructor].
Qed.

(* ... and so is the premise "the run finished": with the end time 1 reached after one step *)
Example run_finishes : exists h' es' stopped,
  run Rops nmR nextR 5 1 hR esR false = Finished h' es' stopped.
Proof.
  destruct hypotheses_satisfiable as (H1 & H2 & H3).
  apply (run_terminates nmR nextR 5 1 hR esR 1 H1 H2 H3); [lia|].
  left. simpl. unfold tm. simpl. lra.
Qed.

(* a genuine crossing: volume fraction 0 at t = 0, 1 at t = 2, threshold 1/4: reported time 1/2 *)
Example crossing_example :
  let H := [rr 0 0; rr 2 1] in
  ~ holds cR (val nmR cR H 0) /\ holds cR (val nmR cR H 1) /\ cross_time nmR cR H 1 = / 2.
Proof.
  cbv zeta. unfold cross_time, holds, compare, val, sel0, tm. simpl.
  split; [lra|]. split; [lra|].
  unfold Rltb. destruct (Rlt_dec (/ 4) 0); [lra|]. Rnorm. field.
Qed.
