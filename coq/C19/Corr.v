(* C19 - correspondence driver: evaluates the model on the exact-rational instance on histories
   the implementation has just recorded.  No theorem depends on this file. *)
From Coq Require Import String QArith List ZArith Bool.
Require Import Kawin.Common.Ops Kawin.Common.Vec Kawin.Common.Out Kawin.C19.Model.
Import ListNotations.
Open Scope Q_scope.

Notation rowQ := (row Qops).
Notation condQ := (cond Qops).
Notation latchQ := (latch Qops).
Notation entryQ := (entry Qops).

Definition R_ (tq : Q) (vf ra dg nr de co : list Q) : rowQ := @mkRow Qops tq vf ra dg nr de co.
Definition C_ (q : quantity) (i : ineq) (v : Q) (s : option string) : condQ := @mkCond Qops q i v s.
Definition L_ (b : bool) (tq : Q) : latchQ := @mkLatch Qops b tq.
Definition E_ (c : condQ) (o : bool) (l : latchQ) : entryQ := @mkEntry Qops c o l.
(* one call model.addStoppingCondition(obj [, mode]): condition, current latch of the object, the mode
   argument as written by the caller (None = omitted) *)
Definition Reg_ (c : condQ) (l : latchQ) (m : option string) : condQ * latchQ * option string := (c, l, m).
Definition registered (regs : list (condQ * latchQ * option string)) : list entryQ := register Qops [] regs.

(* the physics = a recorded reference trajectory (the run WITHOUT stopping conditions) *)
Definition next_from (rows : list rowQ) (h : list rowQ) : rowQ :=
  nth (length h) rows (dummy_row Qops).

Definition show_latch (l : latchQ) := (l_sat Qops l, approx (l_time Qops l)).
Definition show_entries (es : list entryQ) := map (fun e => show_latch (e_latch Qops e)) es.

(* direct calls of testCondition after each of the history lengths ks (no solver involved):
   per call the latches and the flag postProcess would return, None where the call raised *)
Fixpoint seq_case (nm : names) (rows : list rowQ) (ks : list nat) (es : list entryQ) :=
  match ks with
  | [] => []
  | k :: r =>
      match test_all Qops nm (firstn k rows) es with
      | None => [None]
      | Some es' => Some (show_entries es', stop_flag Qops es') :: seq_case nm rows r es'
      end
  end.

(* model.solve(simTime) started from the first n0 recorded rows:
   (0 = finished | 1 = raised | 2 = out of fuel, recorded rows, stop flag, latches) *)
Definition run_case (nm : names) (rows : list rowQ) (n0 : nat) (simTime : Q) (es : list entryQ) :=
  match solve Qops nm (next_from rows) (S (S (length rows))) simTime (firstn n0 rows) es with
  | Finished h es' s => (0%nat, length h, s, show_entries es')
  | Raised h => (1%nat, length h, false, [])
  | OutOfFuel => (2%nat, 0%nat, false, [])
  end.

(* TTPCalculator: one recorded reference trajectory per temperature *)
Definition table := list (Q * list rowQ).
Definition lookup (tb : table) (Temp : Q) : list rowQ :=
  match find (fun p => Qeq_bool (fst p) Temp) tb with Some p => snd p | None => [] end.

Definition ttp_case (nm : names) (tb : table) (maxTime : Q) (pre : list entryQ) (cs : list (condQ * latchQ)) (temps : list Q) :=
  let fuel := S (S (fold_right Nat.max 0%nat (map (fun p => length (snd p)) tb))) in
  match calculateTTP Qops nm (fun Temp => hd (dummy_row Qops) (lookup tb Temp))
                     (fun Temp h => next_from (lookup tb Temp) h) fuel maxTime (ttp_init_on Qops pre cs) temps with
  | Some rows => Some (map (map approx) rows)
  | None => None
  end.
