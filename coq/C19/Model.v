(* C19 - faithful model of the stopping-condition machinery of kawin (repaired tree, see
   fixes/C19-*.patch):
     kawin/precipitation/StoppingConditions.py   PrecipitationStoppingCondition (_poll, _compare,
                                                  _testCondition, testCondition, reset) and its six
                                                  subclasses (which array of pData is monitored)
     kawin/precipitation/KWNBase.py              phaseIndex (79-88), reset (90-104),
                                                  addStoppingCondition / clearStoppingConditions
                                                  (458-481), the check in postProcess (613-631)
     kawin/solver/Solver.py                      the loop of DESolver.solve (197-217)
     kawin/GenericModel.py                       solve / setTimeInfo (finalTime = t + simTime)
     kawin/precipitation/TimeTemperaturePrecipitation.py   __init__, _getStopTime, calculateTTP
   Everything that is not stopping logic (thermodynamics, nucleation, growth, the size
   distribution, the step-size rule) is an argument [next : list row -> row]: the recorded values
   of the step that follows a recorded history.  Executable definitions only (no proofs),
   polymorphic in the scalar record. *)
From Coq Require Import String List Bool ZArith Arith.
Require Import Kawin.Common.Ops Kawin.Common.Vec.
Import ListNotations.

(* Inequality enum *)
Inductive ineq := GreaterThan | LesserThan.
(* which pData array a condition class reads (_getData / CompositionCondition._poll) *)
Inductive quantity := VolFrac | AvgRadius | DrivingForce | NucRate | Density | Composition.

(* model.phases (precipitate phases, numpy array of str) and model.elements (list of solutes) *)
Record names := mkNames { n_phases : list string; n_elements : list string }.

Fixpoint index_of (s : string) (l : list string) : option nat :=
  match l with
  | [] => None
  | x :: r => if String.eqb x s then Some 0 else option_map S (index_of s r)
  end.

Section C19.
Variable O : Ops.
Notation t := (T O).

(* row n of the recorded arrays of PrecipitationData: time[n], volFrac[n,:], Ravg[n,:],
   drivingForce[n,:], nucRate[n,:], precipitateDensity[n,:], composition[n,:] *)
Record row := mkRow {
  r_time : t; r_volFrac : list t; r_Ravg : list t; r_dG : list t;
  r_nucRate : list t; r_density : list t; r_comp : list t }.

Definition column (q : quantity) (r : row) : list t :=
  match q with
  | VolFrac => r_volFrac r | AvgRadius => r_Ravg r | DrivingForce => r_dG r
  | NucRate => r_nucRate r | Density => r_density r | Composition => r_comp r
  end.

(* a condition object's constructor arguments: class, Inequality, value, phase / element name *)
Record cond := mkCond { c_q : quantity; c_ineq : ineq; c_value : t; c_sel : option string }.

(* its mutable part: _isSatisfied, _satisfiedTime *)
Record latch := mkLatch { l_sat : bool; l_time : t }.
(* __init__ and reset(): False, -1 *)
Definition latch0 : latch := mkLatch false (negT O (one O)).

(* phaseIndex(phase): 0 for None, else first position in model.phases (IndexError if absent);
   CompositionCondition: 0 for None, else model.elements.index(element) (ValueError if absent) *)
Definition sel_index (nm : names) (c : cond) : option nat :=
  match c_sel c with
  | None => Some 0
  | Some s => index_of s (match c_q c with Composition => n_elements nm | _ => n_phases nm end)
  end.

(* _poll(model, n) = data[n, p]; None = the indexing raised *)
Definition poll (nm : names) (c : cond) (h : list row) (n : nat) : option t :=
  match sel_index nm c, nth_error h n with
  | Some p, Some r => nth_error (column (c_q c) r) p
  | _, _ => None
  end.

(* _compare(val): strict inequalities *)
Definition compare (c : cond) (v : t) : bool :=
  match c_ineq c with
  | GreaterThan => ltb O (c_value c) v
  | LesserThan => ltb O v (c_value c)
  end.

(* pData.time[n] (total accessor: pData always holds at least one row) *)
Definition dummy_row : row := mkRow (zero O) [] [] [] [] [] [].
Definition tm (h : list row) (n : nat) : t := r_time (nth n h dummy_row).

(* testCondition(model) with pData = h, pData.n = len(h) - 1.  None = an exception left the
   method (the latch is then unchanged and the run is aborted by the exception). *)
Definition test_cond (nm : names) (c : cond) (h : list row) (l : latch) : option latch :=
  if l_sat l then Some l
  else
    let n := length h - 1 in
    match poll nm c h n with
    | None => None
    | Some cur =>
        if compare c cur then
          if 0 <? n then
            match poll nm c h (n - 1) with
            | None => None
            | Some prev =>
                let tc := tm h n in
                let tp := tm h (n - 1) in
                Some (mkLatch true
                  (if compare c prev then tp
                   else add O (dvd O (mul O (sub O tc tp) (sub O (c_value c) prev)) (sub O cur prev)) tp))
            end
          else Some (mkLatch true (tm h n))
        else Some (mkLatch false (l_time l))
    end.

(* one registered condition: _stoppingConditions[i] (object = constructor arguments + latch) and
   _stopConditionMode[i] (True = 'or', anything else = 'and') *)
Record entry := mkEntry { e_cond : cond; e_or : bool; e_latch : latch }.

Definition add_condition (es : list entry) (c : cond) (l : latch) (mode_is_or : bool) : list entry :=
  es ++ [mkEntry c mode_is_or l].

(* addStoppingCondition(condition, mode = 'or'): the mode ARGUMENT as the caller writes it - None = the
   argument is omitted (the default applies), Some s = the string passed.  `if mode == 'or'` appends
   True, everything else appends False ('and'). *)
Definition default_mode : string := "or"%string.
Definition mode_is_or (m : option string) : bool :=
  String.eqb (match m with None => default_mode | Some s => s end) "or"%string.
Definition add_stopping_condition (es : list entry) (c : cond) (l : latch) (m : option string) : list entry :=
  add_condition es c l (mode_is_or m).
(* a sequence of registrations on a model whose list is es0 *)
Definition register (es0 : list entry) (regs : list (cond * latch * option string)) : list entry :=
  fold_left (fun es r => add_stopping_condition es (fst (fst r)) (snd (fst r)) (snd r)) regs es0.
(* clearStoppingConditions() *)
Definition clear_conditions (es : list entry) : list entry := [].

(* the loop of postProcess: every condition is tested, in order *)
Fixpoint test_all (nm : names) (h : list row) (es : list entry) : option (list entry) :=
  match es with
  | [] => Some []
  | e :: r =>
      match test_cond nm (e_cond e) h (e_latch e) with
      | None => None
      | Some l =>
          match test_all nm h r with
          | None => None
          | Some r' => Some (mkEntry (e_cond e) (e_or e) l :: r')
          end
      end
  end.

(* orCondition / andCondition / numAndCondition accumulated in the same loop; with no 'and'
   condition the and-flag is forced to False *)
Definition stop_acc (acc : bool * bool * nat) (e : entry) : bool * bool * nat :=
  let '(o, a, k) := acc in
  if e_or e then (o || l_sat (e_latch e), a, k) else (o, a && l_sat (e_latch e), S k).
Definition stop_flag (es : list entry) : bool :=
  let '(o, a, k) := fold_left stop_acc es (false, true, 0) in
  o || (if k =? 0 then false else a).

(* model.reset(): every registered condition is reset (pData is re-created by the caller) *)
Definition reset_entries (es : list entry) : list entry :=
  map (fun e => mkEntry (e_cond e) (e_or e) latch0) es.

(* ---- DESolver.solve ---------------------------------------------------------------------- *)
Inductive outcome :=
| Finished (h : list row) (es : list entry) (stopped : bool)
| Raised (h : list row)
| OutOfFuel.

Definition snoc_next (next : list row -> row) (h : list row) : list row := h ++ [next h].

(* while currTime < tf and not stop: iterate; currTime += dt; X, stop = postProcess(currTime, X).
   The recorded time of the new row IS currTime (postProcess stores t in pData.time). *)
Fixpoint run (nm : names) (next : list row -> row) (fuel : nat) (tf : t)
             (h : list row) (es : list entry) (stop : bool) : outcome :=
  match fuel with
  | 0 => OutOfFuel
  | S f =>
      if ltb O (tm h (length h - 1)) tf && negb stop then
        let h' := snoc_next next h in
        match test_all nm h' es with
        | None => Raised h'
        | Some es' => run nm next f tf h' es' (stop_flag es')
        end
      else Finished h es stop
  end.

(* GenericModel.solve(simTime): from the current time to current time + simTime *)
Definition solve (nm : names) (next : list row -> row) (fuel : nat) (simTime : t)
                 (h : list row) (es : list entry) : outcome :=
  run nm next fuel (add O (tm h (length h - 1)) simTime) h es false.

(* ---- TTPCalculator ------------------------------------------------------------------------ *)
(* __init__: clearStoppingConditions(); every condition is registered with mode 'and' *)
Definition ttp_init_on (es0 : list entry) (cs : list (cond * latch)) : list entry :=
  register (clear_conditions es0) (map (fun cl => (fst cl, snd cl, Some "and"%string)) cs).
Definition ttp_init (cs : list (cond * latch)) : list entry := ttp_init_on [] cs.

(* pData after reset() + setup(): one row at time 0 whose values depend on the temperature *)
Definition first_row (init : t -> row) (Temp : t) : row :=
  let r := init Temp in
  mkRow (zero O) (r_volFrac r) (r_Ravg r) (r_dG r) (r_nucRate r) (r_density r) (r_comp r).

(* _getStopTime(T): reset, setTemperature, solve(maxTime); values[j] = satisfiedTime() *)
Definition getStopTime (nm : names) (init : t -> row) (nextT : t -> list row -> row)
    (fuel : nat) (maxTime : t) (es : list entry) (Temp : t) : option (list t * list entry) :=
  match solve nm (nextT Temp) fuel maxTime [first_row init Temp] (reset_entries es) with
  | Finished _ es' _ => Some (map (fun e => l_time (e_latch e)) es', es')
  | _ => None
  end.

(* calculateTTP (serial map): the same model and condition objects are used for every temperature *)
Fixpoint calculateTTP (nm : names) (init : t -> row) (nextT : t -> list row -> row)
    (fuel : nat) (maxTime : t) (es : list entry) (temps : list t) : option (list (list t)) :=
  match temps with
  | [] => Some []
  | Temp :: r =>
      match getStopTime nm init nextT fuel maxTime es Temp with
      | None => None
      | Some (vals, es') =>
          match calculateTTP nm init nextT fuel maxTime es' r with
          | None => None
          | Some rows => Some (vals :: rows)
          end
      end
  end.

End C19.

Arguments mkRow {O}. Arguments mkCond {O}. Arguments mkLatch {O}. Arguments mkEntry {O}.
Arguments Finished {O}. Arguments Raised {O}. Arguments OutOfFuel {O}.
