(* C13 - the exact-rational instance of the model (the one executed by the correspondence check) IS
   the real-number instance (the one the theorems are about) on rational data: Q2R commutes with
   np.interp, with the schedule objects, with what a run records and with every operation of the
   lookup-table machine.  No side conditions: the only division (slope of a segment) has a non-zero
   divisor whenever its branch is taken. *)
From Coq Require Import Reals QArith Qreals List Bool Arith Lia Lra.
Require Import Kawin.Common.Ops Kawin.Common.Vec Kawin.C13.Model.
Import ListNotations.

(* ---- np.interp ------------------------------------------------------------------------------------ *)
Lemma Qltb_false_le a b : ltb Qops a b = false -> (b <= a)%Q.
Proof.
  cbn. unfold Qltb. destruct (Qcompare a b) eqn:E; try discriminate; intros _.
  - apply Qeq_alt in E. rewrite E. apply Qle_refl.
  - apply Qgt_alt in E. apply Qlt_le_weak. exact E.
Qed.
Lemma Qltb_true_lt a b : ltb Qops a b = true -> (a < b)%Q.
Proof. cbn. unfold Qltb. destruct (Qcompare a b) eqn:E; try discriminate; intros _. apply Qlt_alt. exact E. Qed.

Lemma sub_nonzero a b : (b < a)%Q -> ~ (sub Qops a b == 0)%Q.
Proof.
  intros H Hz. change (sub Qops a b) with (Qred (a - b)) in Hz. rewrite Qred_correct in Hz.
  assert (E : (a == b)%Q) by (rewrite <- (Qplus_0_l b), <- Hz; ring).
  rewrite E in H. exact (Qlt_irrefl _ H).
Qed.

Lemma go_hom xp : forall fp x, (match xp with [] => True | x0 :: _ => (x0 <= x)%Q end) ->
  Q2R (np_interp_go Qops xp fp x) = np_interp_go Rops (map Q2R xp) (map Q2R fp) (Q2R x).
Proof.
  induction xp as [|x0 xr IH]; intros fp x H0.
  - destruct fp; simpl; apply hom_zero.
  - destruct fp as [|f0 fr]; [destruct xr; simpl; apply hom_zero|].
    destruct xr as [|x1 xr]; [reflexivity|].
    destruct fr as [|f1 fr]; [reflexivity|].
    change (Q2R (if ltb Qops x x1
                 then (if eqb Qops x0 x then f0
                       else add Qops (mul Qops (dvd Qops (sub Qops f1 f0) (sub Qops x1 x0)) (sub Qops x x0)) f0)
                 else np_interp_go Qops (x1 :: xr) (f1 :: fr) x) =
            (if ltb Rops (Q2R x) (Q2R x1)
             then (if eqb Rops (Q2R x0) (Q2R x) then Q2R f0
                   else add Rops (mul Rops (dvd Rops (sub Rops (Q2R f1) (Q2R f0)) (sub Rops (Q2R x1) (Q2R x0)))
                                           (sub Rops (Q2R x) (Q2R x0))) (Q2R f0))
             else np_interp_go Rops (map Q2R (x1 :: xr)) (map Q2R (f1 :: fr)) (Q2R x))).
    rewrite <- hom_ltb, <- hom_eqb.
    destruct (ltb Qops x x1) eqn:E1.
    + destruct (eqb Qops x0 x) eqn:E2; [reflexivity|].
      rewrite hom_add, hom_mul, hom_dvd, !hom_sub; [reflexivity|].
      apply Qltb_true_lt in E1. apply sub_nonzero. eapply Qle_lt_trans; eauto.
    + apply IH. apply Qltb_false_le. exact E1.
Qed.

Lemma last_hom (l : list Q) d : Q2R (last l d) = last (map Q2R l) (Q2R d).
Proof. induction l as [|a [|b l] IH]; try reflexivity. exact IH. Qed.

Theorem interp_hom xp fp x :
  Q2R (np_interp Qops xp fp x) = np_interp Rops (map Q2R xp) (map Q2R fp) (Q2R x).
Proof.
  destruct xp as [|x0 xr]; [apply hom_zero|]. destruct fp as [|f0 fr]; [apply hom_zero|].
  change (np_interp Qops (x0 :: xr) (f0 :: fr) x)
    with (if ltb Qops x x0 then f0
          else if ltb Qops (last (x0 :: xr) x0) x then last (f0 :: fr) f0
          else np_interp_go Qops (x0 :: xr) (f0 :: fr) x).
  change (np_interp Rops (map Q2R (x0 :: xr)) (map Q2R (f0 :: fr)) (Q2R x))
    with (if ltb Rops (Q2R x) (Q2R x0) then Q2R f0
          else if ltb Rops (last (map Q2R (x0 :: xr)) (Q2R x0)) (Q2R x) then last (map Q2R (f0 :: fr)) (Q2R f0)
          else np_interp_go Rops (map Q2R (x0 :: xr)) (map Q2R (f0 :: fr)) (Q2R x)).
  rewrite <- !last_hom, <- !hom_ltb.
  destruct (ltb Qops x x0) eqn:E0; [reflexivity|].
  cbn [T Qops] in *.
  destruct (ltb Qops (last (x0 :: xr) x0) x); [reflexivity|].
  apply go_hom. apply Qltb_false_le. exact E0.
Qed.

(* ---- schedule objects ------------------------------------------------------------------------------ *)
(* a user function on the rationals and the real function it stands for *)
Definition fun_hom (fq : Q -> Q) (fr : R -> R) : Prop := forall s, Q2R (fq s) = fr (Q2R s).

Inductive kind_rel : kind Qops -> kind Rops -> Prop :=
| KR_none : kind_rel KNone KNone
| KR_const T0 : kind_rel (KConst Qops T0) (KConst Rops (Q2R T0))
| KR_table h k : kind_rel (KTable Qops h k) (KTable Rops (map Q2R h) (map Q2R k))
| KR_func fq fr : fun_hom fq fr -> kind_rel (KFunc Qops fq) (KFunc Rops fr).
Definition tp_rel (p : tparams Qops) (r : tparams Rops) : Prop :=
  isIso Qops p = isIso Rops r /\ kind_rel (tkind Qops p) (tkind Rops r).

Lemma hours_hom s : Q2R (hours_of Qops s) = hours_of Rops (Q2R s).
Proof.
  unfold hours_of. rewrite hom_dvd; [|cbn; discriminate].
  cbn. f_equal. unfold Q2R. simpl. lra.
Qed.

Theorem sched_hom p r s : tp_rel p r -> Q2R (sched Qops p s) = sched Rops r (Q2R s).
Proof.
  intros [_ H]. unfold sched. destruct H; try reflexivity.
  - apply hom_zero.
  - rewrite interp_hom, hours_hom. reflexivity.
  - apply H.
Qed.

Theorem run_pd_hom p r t0 ts : tp_rel p r ->
  map Q2R (p_time Qops (run_pd Qops p t0 ts)) = p_time Rops (run_pd Rops r (Q2R t0) (map Q2R ts)) /\
  map Q2R (p_temp Qops (run_pd Qops p t0 ts)) = p_temp Rops (run_pd Rops r (Q2R t0) (map Q2R ts)).
Proof.
  intros H. unfold run_pd.
  assert (G : forall ts dq dr, map Q2R (p_time Qops dq) = p_time Rops dr -> map Q2R (p_temp Qops dq) = p_temp Rops dr ->
             map Q2R (p_time Qops (fold_left (post_process Qops p) ts dq)) =
               p_time Rops (fold_left (post_process Rops r) (map Q2R ts) dr) /\
             map Q2R (p_temp Qops (fold_left (post_process Qops p) ts dq)) =
               p_temp Rops (fold_left (post_process Rops r) (map Q2R ts) dr)).
  { induction ts0 as [|a ts0 IH]; intros dq dr H1 H2; [split; assumption|].
    change (map Q2R (a :: ts0)) with (Q2R a :: map Q2R ts0). cbn [fold_left].
    apply IH; unfold post_process; cbn [p_time p_temp]; rewrite map_app.
    - apply (f_equal2 (@app R)); [exact H1 | reflexivity].
    - apply (f_equal2 (@app R)); [exact H2|]. change (map Q2R [sched Qops p a]) with [Q2R (sched Qops p a)].
      apply (f_equal (fun v : R => [v])). exact (sched_hom p r a H). }
  apply G; unfold setup_pd; cbn [p_time p_temp map]; [reflexivity|].
  rewrite (sched_hom p r t0 H). reflexivity.
Qed.

(* ---- the lookup-table machine ------------------------------------------------------------------------ *)
Definition stQ2R (s : lstate Qops) : lstate Rops :=
  mkL Rops (Q2R (l_dTemp Qops s)) (Q2R (l_lookupT Qops s)) (map (map Q2R) (l_tabs Qops s)) (Q2R (l_xeqT Qops s))
      (Q2R (l_outT Qops s)) (Q2R (l_cur Qops s)) (Q2R (l_recT Qops s)) (Q2R (l_recXeqT Qops s)).
Definition opQ2R (o : lop Qops) : lop Rops :=
  match o with
  | OGrowth _ Tn => OGrowth Rops (Q2R Tn)
  | ORecord => ORecord
  | ORemeshFull sizes => ORemeshFull sizes
  | ORemeshExtend p a n => ORemeshExtend p a n
  end.

Lemma absT_hom x : Q2R (absT Qops x) = absT Rops (Q2R x).
Proof.
  unfold absT. rewrite <- hom_zero, <- hom_ltb.
  destruct (ltb Qops x (zero Qops)); [|reflexivity]. rewrite hom_sub. reflexivity.
Qed.

Lemma repeat_hom (x : Q) n : map Q2R (repeat x n) = repeat (Q2R x) n.
Proof. induction n; simpl; congruence. Qed.

Lemma fresh_hom (Tb : Q) sizes :
  map (map Q2R) (map (fun n => repeat Tb n) sizes) = map (fun n => repeat (Q2R Tb) n) sizes.
Proof. rewrite map_map. apply map_ext. intros n. apply repeat_hom. Qed.

Lemma sizes_hom s : sizes_of Rops (stQ2R s) = sizes_of Qops s.
Proof. unfold sizes_of, stQ2R. cbn [l_tabs]. rewrite map_map. apply map_ext. intros l. apply map_length. Qed.

Lemma create_hom Tb sizes s :
  stQ2R (create_lookup Qops Tb sizes s) = create_lookup Rops (Q2R Tb) sizes (stQ2R s).
Proof. unfold create_lookup, stQ2R. cbn [l_dTemp l_lookupT l_tabs l_xeqT l_outT l_cur l_recT l_recXeqT]. rewrite fresh_hom. reflexivity. Qed.

Lemma set_nth_hom {A B} (f : A -> B) l k v : map f (set_nth l k v) = set_nth (map f l) k (f v).
Proof.
  unfold set_nth. rewrite map_app, firstn_map, skipn_map. f_equal.
  destruct (skipn k l); reflexivity.
Qed.

Lemma extend_hom Tb p a n s :
  stQ2R (extend_tab Qops Tb p a n s) = extend_tab Rops (Q2R Tb) p a n (stQ2R s).
Proof.
  unfold extend_tab, stQ2R. cbn [l_dTemp l_lookupT l_tabs l_xeqT l_outT l_cur l_recT l_recXeqT].
  f_equal. rewrite (set_nth_hom (map Q2R)). f_equal.
  apply (f_equal (set_nth (map (map Q2R) (l_tabs Qops s)) p)).
  rewrite map_app, repeat_hom. apply (f_equal2 (@app R)); [|reflexivity].
  change (@nil (T Rops)) with (map Q2R (@nil Q)). rewrite (map_nth (map Q2R)). symmetry. apply firstn_map.
Qed.

Lemma growth_hom maxdT Tn s :
  stQ2R (growth Qops maxdT Tn s) = growth Rops (Q2R maxdT) (Q2R Tn) (stQ2R s).
Proof.
  unfold growth.
  change (l_lookupT Rops (stQ2R s)) with (Q2R (l_lookupT Qops s)).
  rewrite <- hom_sub, <- absT_hom, <- hom_ltb.
  destruct (ltb Qops maxdT (absT Qops (sub Qops Tn (l_lookupT Qops s)))).
  - rewrite sizes_hom. unfold stQ2R, create_lookup.
    cbn [l_dTemp l_lookupT l_tabs l_xeqT l_outT l_cur l_recT l_recXeqT]. rewrite fresh_hom, hom_zero. reflexivity.
  - reflexivity.
Qed.

Lemma growth_old_hom maxdT Tn s :
  stQ2R (growth_old Qops maxdT Tn s) = growth_old Rops (Q2R maxdT) (Q2R Tn) (stQ2R s).
Proof.
  unfold growth_old.
  change (l_recT Rops (stQ2R s)) with (Q2R (l_recT Qops s)).
  change (l_dTemp Rops (stQ2R s)) with (Q2R (l_dTemp Qops s)).
  rewrite <- hom_sub, <- hom_add, <- absT_hom, <- hom_ltb.
  destruct (ltb Qops maxdT (absT Qops (add Qops (l_dTemp Qops s) (sub Qops Tn (l_recT Qops s))))).
  - rewrite sizes_hom. unfold stQ2R, create_lookup.
    cbn [l_dTemp l_lookupT l_tabs l_xeqT l_outT l_cur l_recT l_recXeqT]. rewrite fresh_hom. reflexivity.
  - unfold stQ2R. cbn [l_dTemp l_lookupT l_tabs l_xeqT l_outT l_cur l_recT l_recXeqT]. rewrite hom_zero. reflexivity.
Qed.

Theorem step_hom maxdT s o :
  stQ2R (step Qops maxdT s o) = step Rops (Q2R maxdT) (stQ2R s) (opQ2R o).
Proof.
  destruct o as [Tn| |sizes|p a n]; cbn [step opQ2R].
  - apply growth_hom.
  - reflexivity.
  - apply create_hom.
  - apply extend_hom.
Qed.

Theorem step_old_hom maxdT s o :
  stQ2R (step_old Qops maxdT s o) = step_old Rops (Q2R maxdT) (stQ2R s) (opQ2R o).
Proof.
  destruct o as [Tn| |sizes|p a n]; cbn [step_old opQ2R].
  - apply growth_old_hom.
  - reflexivity.
  - apply create_hom.
  - apply extend_hom.
Qed.

Theorem run_hom maxdT T0 sizes ops :
  stQ2R (run Qops maxdT T0 sizes ops) = run Rops (Q2R maxdT) (Q2R T0) sizes (map opQ2R ops).
Proof.
  unfold run.
  assert (I : stQ2R (init Qops T0 sizes) = init Rops (Q2R T0) sizes).
  { unfold init, stQ2R. cbn [l_dTemp l_lookupT l_tabs l_xeqT l_outT l_cur l_recT l_recXeqT]. rewrite fresh_hom, hom_zero. reflexivity. }
  rewrite <- I. generalize (init Qops T0 sizes). induction ops as [|o ops IH]; intros s; [reflexivity|].
  cbn [fold_left map]. rewrite IH, step_hom. reflexivity.
Qed.
Print Assumptions interp_hom.
Print Assumptions sched_hom.
Print Assumptions run_pd_hom.
Print Assumptions step_hom.
Print Assumptions step_old_hom.
Print Assumptions run_hom.
