(* C13 - Temperature schedules are followed faithfully.
   This file contains ONLY the property theorems; each is closed by [exact] of a lemma of Proofs.v
   and followed by Print Assumptions.  All statements are about the real-number instance [Rops]
   of the model in Model.v (kawin/precipitation/PrecipitationParameters.py, KWNBase.py, KWNEuler.py,
   kawin/diffusion/DiffusionParameters.py), for the code AFTER the two `fix:` commits of C13
   (fixes/C13-ctor-isothermal-flag.patch, fixes/C13-lookup-refresh.patch); the unrepaired code is
   modelled by [ctor_old] / [step_old] and refuted in Examples.v. *)
From Coq Require Import Reals List Arith.
Require Import Kawin.Common.Ops Kawin.Common.Vec Kawin.C13.Model Kawin.C13.Proofs.
Import ListNotations.
Open Scope R_scope.

(* ---- (hours, kelvin) break points: np.interp ---------------------------------------------- *)
(* a break point is hit exactly; for a repeated time (instantaneous jump) the last value counts *)
Theorem C13_interp_hits_breakpoint xp fp k :
  length xp = length fp -> nondecr xp -> (k < length xp)%nat ->
  ((S k < length xp)%nat -> nth k xp 0 < nth (S k) xp 0) ->
  np_interp Rops xp fp (nth k xp 0) = nth k fp 0.
Proof. exact (interp_hits xp fp k). Qed.
Print Assumptions C13_interp_hits_breakpoint.

(* linear between two break points *)
Theorem C13_interp_linear_between xp fp k x :
  length xp = length fp -> nondecr xp -> (S k < length xp)%nat ->
  nth k xp 0 <= x < nth (S k) xp 0 ->
  np_interp Rops xp fp x =
    nth k fp 0 + (nth (S k) fp 0 - nth k fp 0) / (nth (S k) xp 0 - nth k xp 0) * (x - nth k xp 0).
Proof. exact (interp_between xp fp k x). Qed.
Print Assumptions C13_interp_linear_between.

(* first value before the first break point, last value from the last one on *)
Theorem C13_interp_clamps xp fp x : xp <> [] -> length xp = length fp -> nondecr xp ->
  (x < nth 0 xp 0 -> np_interp Rops xp fp x = nth 0 fp 0) /\
  (nth (length xp - 1) xp 0 <= x -> np_interp Rops xp fp x = nth (length fp - 1) fp 0).
Proof. exact (interp_clamps xp fp x). Qed.
Print Assumptions C13_interp_clamps.

(* the interpolated temperature lies between the two neighbouring break-point temperatures *)
Theorem C13_interp_no_overshoot xp fp k x :
  length xp = length fp -> nondecr xp -> (S k < length xp)%nat ->
  nth k xp 0 <= x < nth (S k) xp 0 ->
  Rmin (nth k fp 0) (nth (S k) fp 0) <= np_interp Rops xp fp x <= Rmax (nth k fp 0) (nth (S k) fp 0).
Proof. exact (interp_no_overshoot xp fp k x). Qed.
Print Assumptions C13_interp_no_overshoot.

(* ---- the schedule object, with times in seconds and break points in hours ------------------ *)
Theorem C13_schedule_table_hits b hrs kel k :
  length hrs = length kel -> nondecr hrs -> (k < length hrs)%nat ->
  ((S k < length hrs)%nat -> nth k hrs 0 < nth (S k) hrs 0) ->
  sched Rops (mkTP Rops b (KTable Rops hrs kel)) (3600 * nth k hrs 0) = nth k kel 0.
Proof. exact (sched_table_hits b hrs kel k). Qed.
Print Assumptions C13_schedule_table_hits.

Theorem C13_schedule_table_between b hrs kel k s :
  length hrs = length kel -> nondecr hrs -> (S k < length hrs)%nat ->
  3600 * nth k hrs 0 <= s < 3600 * nth (S k) hrs 0 ->
  sched Rops (mkTP Rops b (KTable Rops hrs kel)) s =
    nth k kel 0 + (nth (S k) kel 0 - nth k kel 0) / (3600 * nth (S k) hrs 0 - 3600 * nth k hrs 0)
                  * (s - 3600 * nth k hrs 0).
Proof. exact (sched_table_between b hrs kel k s). Qed.
Print Assumptions C13_schedule_table_between.

Theorem C13_schedule_table_clamps b hrs kel s : hrs <> [] -> length hrs = length kel -> nondecr hrs ->
  (s < 3600 * nth 0 hrs 0 -> sched Rops (mkTP Rops b (KTable Rops hrs kel)) s = nth 0 kel 0) /\
  (3600 * nth (length hrs - 1) hrs 0 <= s ->
     sched Rops (mkTP Rops b (KTable Rops hrs kel)) s = nth (length kel - 1) kel 0).
Proof. exact (sched_table_clamps b hrs kel s). Qed.
Print Assumptions C13_schedule_table_clamps.

(* what the object built from each kind of specification evaluates to *)
Theorem C13_schedule_of_spec a s :
  sched Rops (ctor Rops a) s =
    match a with
    | A0 => 0
    | AConst _ T0 => T0
    | AFunc _ f => f s
    | ATable _ h k => np_interp Rops h k (s / 3600)
    end.
Proof. exact (ctor_sched a s). Qed.
Print Assumptions C13_schedule_of_spec.

(* ---- the recorded temperature is the schedule at the recorded time, at every step ----------- *)
Theorem C13_recorded_T_is_schedule p t0 ts n :
  let d := run_pd Rops p t0 ts in
  length (p_time Rops d) = S (length ts) /\ length (p_temp Rops d) = S (length ts) /\
  ((n <= length ts)%nat -> nth n (p_temp Rops d) 0 = sched Rops p (nth n (p_time Rops d) 0)).
Proof. exact (recorded_T p t0 ts n). Qed.
Print Assumptions C13_recorded_T_is_schedule.

(* ... also when the run consists of several solve() calls and the specification (any kind, through any
   route) is changed in between: each step carries the schedule in force during its own call *)
Theorem C13_recorded_T_segments p0 t0 segs :
  p_time Rops (run_segs Rops p0 t0 segs) = t0 :: concat (map snd segs) /\
  p_temp Rops (run_segs Rops p0 t0 segs) =
    sched Rops p0 t0 :: concat (map (fun sg => map (sched Rops (fst sg)) (snd sg)) segs).
Proof. exact (run_segs_spec p0 t0 segs). Qed.
Print Assumptions C13_recorded_T_segments.

(* ---- constructor parameter object = setter -------------------------------------------------- *)
Theorem C13_ctor_eq_setter a : ctor Rops a = via_setter Rops a.
Proof. exact (ctor_setter a). Qed.
Print Assumptions C13_ctor_eq_setter.

(* a setter call replaces whatever was installed before, flag included *)
Theorem C13_setter_overrides p a : a <> A0 -> setTemperatureParameters Rops p a = ctor Rops a.
Proof. exact (setter_overrides p a). Qed.
Print Assumptions C13_setter_overrides.

(* isothermal exactly for a constant *)
Theorem C13_isothermal_flag a :
  isIso Rops (ctor Rops a) = match a with AConst _ _ | A0 => true | _ => false end.
Proof. exact (ctor_flag a). Qed.
Print Assumptions C13_isothermal_flag.

(* same treatment of incubation through both routes; isothermal formula only for a constant *)
Theorem C13_same_incubation a :
  incubation_model Rops (ctor Rops a) = incubation_model Rops (via_setter Rops a) /\
  (incubation_model Rops (ctor Rops a) = IncIsothermal <->
     match a with AConst _ _ | A0 => True | _ => False end).
Proof. exact (same_incubation a). Qed.
Print Assumptions C13_same_incubation.

(* whatever a run computes from the parameter object, it computes the same through both routes *)
Theorem C13_identical_runs a (X : Type) (F : tparams Rops -> X) : F (ctor Rops a) = F (via_setter Rops a).
Proof. exact (identical_runs a X F). Qed.
Print Assumptions C13_identical_runs.

(* ---- diffusion package ----------------------------------------------------------------------- *)
Theorem C13_diffusion_ctor_eq_setter prev a : a <> DA0 -> dctor Rops a = dvia_setter Rops prev a.
Proof. exact (dctor_setter prev a). Qed.
Print Assumptions C13_diffusion_ctor_eq_setter.

(* every node gets the schedule's temperature *)
Theorem C13_diffusion_uniform a z s k : (k < length z)%nat ->
  match a with DAFunc _ _ | DA0 => True
  | DAConst _ T0 => nth k (dsched Rops (dctor Rops a) z s) 0 = T0
  | DATable _ h kv => nth k (dsched Rops (dctor Rops a) z s) 0 = np_interp Rops h kv (s / 3600)
  end /\
  match a with DAFunc _ _ | DA0 => True | _ => length (dsched Rops (dctor Rops a) z s) = length z end.
Proof. exact (dsched_uniform a z s k). Qed.
Print Assumptions C13_diffusion_uniform.

(* ---- the binary lookup table ------------------------------------------------------------------ *)
(* For every limit, every initial temperature, every table shape and EVERY sequence of operations
   (growth-rate calls at arbitrary temperatures - heating, cooling, holds, fast or slow -, recording,
   re-meshing), in every state reached: each tabulated interfacial composition, the equilibrium
   compositions handed to the step and the recorded ones were computed within maxTempChange of the
   temperature they are used / recorded at. *)
Theorem C13_table_within_maxTempChange maxdT T0 sizes ops : 0 <= maxdT ->
  Forall (fun s =>
    Forall (Forall (fun e => Rabs (l_cur Rops s - e) <= maxdT)) (l_tabs Rops s) /\
    Rabs (l_cur Rops s - l_outT Rops s) <= maxdT /\
    Rabs (l_recT Rops s - l_recXeqT Rops s) <= maxdT)
  (trace Rops maxdT T0 sizes ops).
Proof. exact (table_within maxdT T0 sizes ops). Qed.
Print Assumptions C13_table_within_maxTempChange.

(* all entries of the table, the cached and the handed-out equilibrium compositions belong to ONE
   temperature (self._lookupTemp), and self.dTemp is the drift from it *)
Theorem C13_table_one_temperature maxdT T0 sizes ops : 0 <= maxdT ->
  Forall (fun s =>
    (forall tab e, In tab (l_tabs Rops s) -> In e tab -> e = l_lookupT Rops s) /\
    l_xeqT Rops s = l_lookupT Rops s /\ l_outT Rops s = l_lookupT Rops s /\
    l_dTemp Rops s = l_cur Rops s - l_lookupT Rops s)
  (trace Rops maxdT T0 sizes ops).
Proof. exact (table_consistent maxdT T0 sizes ops). Qed.
Print Assumptions C13_table_one_temperature.

(* refreshed when, and only when, the drift exceeds the limit; shapes are kept *)
Theorem C13_refresh_iff maxdT Tn s :
  let s' := growth Rops maxdT Tn s in
  l_cur Rops s' = Tn /\ sizes_of Rops s' = sizes_of Rops s /\
  (maxdT < Rabs (Tn - l_lookupT Rops s) ->
     l_lookupT Rops s' = Tn /\ l_outT Rops s' = Tn /\ all_at Tn (l_tabs Rops s')) /\
  (Rabs (Tn - l_lookupT Rops s) <= maxdT ->
     l_lookupT Rops s' = l_lookupT Rops s /\ l_tabs Rops s' = l_tabs Rops s /\ l_outT Rops s' = l_xeqT Rops s).
Proof. exact (growth_refresh maxdT Tn s). Qed.
Print Assumptions C13_refresh_iff.

(* no rebuild during a hold *)
Theorem C13_hold_no_rebuild maxdT s : 0 <= maxdT -> inv maxdT s ->
  l_tabs Rops (growth Rops maxdT (l_cur Rops s) s) = l_tabs Rops s /\
  l_lookupT Rops (growth Rops maxdT (l_cur Rops s) s) = l_lookupT Rops s.
Proof. exact (hold_no_rebuild maxdT s). Qed.
Print Assumptions C13_hold_no_rebuild.
