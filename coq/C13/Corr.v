(* C13 - correspondence driver: evaluates the model of Model.v on the exact-rational instance and
   compares, inside Coq, with what the implementation produced for the same inputs.  Harness side:
   no theorem depends on this file. *)
From Coq Require Import QArith List ZArith Bool Arith.
Require Import Kawin.Common.Ops Kawin.Common.Vec Kawin.Common.Out Kawin.C13.Model.
Import ListNotations.
Open Scope Q_scope.

Definition qmin (a b : Q) : Q := if Qle_bool a b then a else b.

(* ---- schedules --------------------------------------------------------------------------------- *)
(* The implementation evaluates the schedule in binary64 (t/3600 is rounded, np.interp rounds): its
   value must lie in the range the exact model takes on an rt-neighbourhood of the time, widened by
   rt relative to the magnitude.  With rt = 0 (exact dyadic cases) this is equality. *)
(* break points (in seconds) of a table that lie in the d-neighbourhood of s: the extreme values of a
   piecewise linear schedule over the neighbourhood are taken at its ends or at such a break point *)
Definition near_pts (p : tparams Qops) (s d : Q) : list Q :=
  match tkind Qops p with
  | KTable _ h _ => filter (fun b => Qle_bool (qabs (Qred (b - s))) d) (map (fun x => Qred (3600 * x)) h)
  | _ => []
  end.
Definition sched_range (p : tparams Qops) (s d : Q) : Q * Q :=
  let f := sched Qops p in
  let v0 := f s in
  fold_left (fun acc x => let v := f x in (qmin (fst acc) v, qmax (snd acc) v))
            (Qred (s - d) :: Qred (s + d) :: near_pts p s d) (v0, v0).
Definition in_range (rt : Q) (lohi : Q * Q) (v : Q) : bool :=
  let (lo, hi) := lohi in
  let slack := Qred (rt * (qabs lo + qabs hi)) in
  Qle_bool (lo - slack) v && Qle_bool v (hi + slack).
Definition sched_ok (rt : Q) (p : tparams Qops) (s v : Q) : bool :=
  in_range rt (sched_range p s (Qred (rt * qabs s))) v.

Fixpoint first_bad {A} (ok : A -> bool) (k : nat) (l : list A) : option nat :=
  match l with [] => None | a :: r => if ok a then first_bad ok (S k) r else Some k end.

(* one schedule object, evaluated at several times: (flag, callable, index of first disagreement) *)
Definition sched_case (rt : Q) (p : tparams Qops) (pts : list (Q * Q)) : bool * bool * option nat :=
  (isIso Qops p, callable Qops p, first_bad (fun sv => sched_ok rt p (fst sv) (snd sv)) 0 pts).

(* user functions the harness uses: a + b*s + c*s*s *)
Definition poly (a b c : Q) : Q -> Q := fun s => Qred (a + b * s + c * s * s).

(* what a run recorded: times and temperatures (first entry = setup); the model run must reproduce
   the times and, within the tolerance above, the temperatures *)
Fixpoint zip3l {A B C} (a : list A) (b : list B) (c : list C) : list (A * B * C) :=
  match a, b, c with x :: a', y :: b', z :: c' => (x, y, z) :: zip3l a' b' c' | _, _, _ => [] end.
Definition rec_case (rt : Q) (p : tparams Qops) (times temps : list Q) : bool * bool * option nat :=
  match times with
  | [] => (isIso Qops p, false, Some 0%nat)
  | t0 :: ts =>
      let d := run_pd Qops p t0 ts in
      let same_len := Nat.eqb (length (p_temp Qops d)) (length temps) && Nat.eqb (length (p_time Qops d)) (length times) in
      (isIso Qops p, same_len,
       first_bad (fun x => match x with (s, m, v) =>
                    let (lo, hi) := sched_range p s (Qred (rt * qabs s)) in
                    in_range rt (qmin lo m, qmax hi m) v end) 0
                 (zip3l (p_time Qops d) (p_temp Qops d) temps))
  end.

(* diffusion: the array returned for the nodes z at time s *)
Definition dsched_case (rt : Q) (k : dkind Qops) (z : list Q) (s : Q) (impl : list Q) : bool * option nat :=
  let m := dsched Qops k z s in
  (Nat.eqb (length m) (length impl),
   match k with
   | DTable _ h kv =>
       first_bad (fun v => sched_ok rt (mkTP Qops false (KTable Qops h kv)) s v) 0 impl
   | _ => first_bad (fun mv => in_range rt (fst mv, fst mv) (snd mv)) 0 (combine m impl)
   end).
Definition dpoly (a b c : Q) : list Q -> Q -> list Q := fun z s => map (fun zi => Qred (a + b * s + c * zi)) z.

(* ---- the lookup-table machine ---------------------------------------------------------------------- *)
Definition G (x : Q) : lop Qops := OGrowth Qops x.
Definition Rc : lop Qops := ORecord.
Definition RF (sizes : list nat) : lop Qops := ORemeshFull sizes.
Definition RE (p a n : nat) : lop Qops := ORemeshExtend p a n.

(* what the harness observed after an operation; to keep the case files small a field that did not
   change since the previous observation is sent as "same" *)
Inductive lk3 := LkMissing | LkSame | LkVal (q : Q).
Record obs := mkObs {
  o_dTemp : Q;                            (* model.dTemp *)
  o_lookup : lk3;                         (* model._lookupTemp (LkMissing: no such attribute) *)
  o_tabs : option (list (nat * Q * Q));   (* per phase: entries, min and max temperature the entries were computed at; None = same *)
  o_out : option (Q * option Q)           (* growth calls: range of temperatures at which the returned xEq may have been
                                             computed (lo, Some hi), or (lo, None) when it is one temperature *)
}.

Definition summ (tab : list Q) : nat * Q * Q :=
  match tab with
  | [] => (0%nat, 0, 0)
  | a :: r => (length tab, fold_left qmin r a, fold_left qmax r a)
  end.
Definition summ_eq (a b : nat * Q * Q) : bool :=
  match a, b with (n, lo, hi), (n', lo', hi') => Nat.eqb n n' && Qeq_bool lo lo' && Qeq_bool hi hi' end.
Fixpoint all2 {A B} (f : A -> B -> bool) (a : list A) (b : list B) : bool :=
  match a, b with
  | [], [] => true
  | x :: a', y :: b' => f x y && all2 f a' b'
  | _, _ => false
  end.

Definition agree (rt : Q) (repaired : bool) (s : lstate Qops) (dT : Q) (lk : option Q) (tabs : list (nat * Q * Q))
                 (out : option (Q * option Q)) : bool :=
  all2 summ_eq (map summ (l_tabs Qops s)) tabs &&
  match out with
  | Some (lo, Some hi) => Qle_bool lo (l_outT Qops s) && Qle_bool (l_outT Qops s) hi
  | Some (lo, None) => Qeq_bool lo (l_outT Qops s)
  | None => true
  end &&
  (if repaired
   then match lk with Some l => Qeq_bool l (l_lookupT Qops s) | None => false end &&
        closeb rt dT (l_dTemp Qops s) (qabs (l_cur Qops s) + qabs (l_lookupT Qops s))
   else closeb (rt * 1024) dT (l_dTemp Qops s) (qabs (l_cur Qops s) + qabs (l_recT Qops s) + qabs (l_dTemp Qops s))).

(* is the refresh decision of this growth call within rounding of a tie? *)
Definition tie (rt maxdT : Q) (repaired : bool) (s : lstate Qops) (o : lop Qops) : bool :=
  match o with
  | OGrowth _ Tn =>
      let d := if repaired then Qred (Tn - l_lookupT Qops s) else Qred (l_dTemp Qops s + (Tn - l_recT Qops s)) in
      negb (Qeq_bool (qabs d) maxdT) && closeb rt (qabs d) maxdT (qabs Tn)
  | _ => false
  end.

Inductive outcome := Agree | Disagree (k : nat) | NearTie (k : nat).

Fixpoint follow (rt maxdT : Q) (repaired : bool) (s : lstate Qops) (pl : option Q) (pt : list (nat * Q * Q))
                (k : nat) (l : list (lop Qops * obs)) : outcome :=
  match l with
  | [] => Agree
  | (o, ob) :: r =>
      if tie rt maxdT repaired s o then NearTie k
      else let s' := (if repaired then step Qops maxdT s o else step_old Qops maxdT s o) in
           let lk := match o_lookup ob with LkMissing => None | LkSame => pl | LkVal q => Some q end in
           let tabs := match o_tabs ob with None => pt | Some t => t end in
           if agree rt repaired s' (o_dTemp ob) lk tabs (o_out ob) then follow rt maxdT repaired s' lk tabs (S k) r
           else Disagree k
  end.

(* (repaired machine follows the implementation?, unrepaired machine follows it?, and - from the
   model alone - the largest distance of a table entry from the current temperature, as a check that
   the cases exercise drift) *)
Definition maxdev (s : lstate Qops) : Q :=
  fold_left qmax (map (fun e => qabs (Qred (l_cur Qops s - e))) (concat (l_tabs Qops s))) 0.
Definition ops_case (rt maxdT T0 : Q) (sizes : list nat) (chk : bool) (l : list (lop Qops * obs)) : outcome * outcome * bool :=
  (follow rt maxdT true (init Qops T0 sizes) None [] 0 l,
   follow rt maxdT false (init Qops T0 sizes) None [] 0 l,
   if chk then forallb (fun s => Qle_bool (maxdev s) maxdT) (trace Qops maxdT T0 sizes (map fst l)) else true).

(* a run made of several solve calls: per segment the parameter object in force and the (time, recorded
   temperature) pairs of its steps; (isothermal flag per segment, same number of records, first bad index) *)
Definition recs_case (rt : Q) (p0 : tparams Qops) (t0 v0 : Q) (segs : list (tparams Qops * list (Q * Q)))
  : list bool * bool * option nat :=
  let d := run_segs Qops p0 t0 (map (fun sg => (fst sg, map fst (snd sg))) segs) in
  let flat := (p0, t0, v0) :: flat_map (fun sg => map (fun sv => (fst sg, fst sv, snd sv)) (snd sg)) segs in
  (map (fun sg => isIso Qops (fst sg)) segs,
   Nat.eqb (length (p_temp Qops d)) (length flat) && all2 Qeq_bool (p_time Qops d) (map (fun x => snd (fst x)) flat),
   first_bad (fun xm => match xm with ((p, s, v), m) =>
                let (lo, hi) := sched_range p s (Qred (rt * qabs s)) in
                in_range rt (qmin lo m, qmax hi m) v end) 0 (combine flat (p_temp Qops d))).

