(* C13 - non-vacuity examples and refutation witnesses for the code before the repairs. *)
From Coq Require Import Reals QArith Qabs List ZArith Lra Lia.
Require Import Kawin.Common.Ops Kawin.Common.Vec Kawin.C13.Model Kawin.C13.Proofs.
Import ListNotations.

(* ---- hypotheses of the theorems are satisfiable ------------------------------------------------ *)
Open Scope R_scope.
Example nondecr_example : nondecr [0; 1; 1; 2] /\ incr [0; 1; 2] /\ ~ incr [0; 1; 1; 2].
Proof.
  split; [|split].
  - intros i j [Hij Hj]. simpl in Hj.
    destruct i as [|[|[|[|i]]]]; destruct j as [|[|[|[|j]]]]; simpl; try lia; lra.
  - intros i j [Hij Hj]. simpl in Hj.
    destruct i as [|[|[|i]]]; destruct j as [|[|[|j]]]; simpl; try lia; lra.
  - intros H. specialize (H 1%nat 2%nat ltac:(simpl; lia)). simpl in H. lra.
Qed.

Example inv_example : inv 1 (run Rops 1 700 [3; 2]%nat [OGrowth Rops 700; ORecord; OGrowth Rops 705; ORecord;
                                                      ORemeshExtend 0 3 5; OGrowth Rops (7045/10); ORemeshFull [4; 4]%nat]).
Proof. apply inv_fold; [lra|]. apply inv_init. lra. Qed.
Close Scope R_scope.

(* ---- the executable instance ------------------------------------------------------------------- *)
Open Scope Q_scope.
(* a schedule with a hold, an instantaneous jump at 1 h and a ramp: hours / kelvin *)
Definition exH : list Q := [0; 1; 1; 2].
Definition exK : list Q := [700; 700; 800; 900].
Example interp_example :
  map (np_interp Qops exH exK) [-1; 0; 1#2; 1; 3#2; 2; 5] = [700; 700; 700; 800; 850; 900; 900].
Proof. vm_compute. reflexivity. Qed.
(* seconds in, kelvin out *)
Example sched_example :
  map (sched Qops (ctor Qops (ATable Qops exH exK))) [0; 1800; 3600; 5400; 7200; 10000] = [700; 700; 800; 850; 900; 900].
Proof. vm_compute. reflexivity. Qed.
Example recorded_example :
  p_temp Qops (run_pd Qops (ctor Qops (ATable Qops exH exK)) 0 [1800; 5400]) = [700; 700; 850].
Proof. vm_compute. reflexivity. Qed.
Example diffusion_example :
  dsched Qops (dctor Qops (DATable Qops exH exK)) [0; 1; 2] 5400 = [850; 850; 850].
Proof. vm_compute. reflexivity. Qed.

(* constructor and setter after the repair: equal, and non-isothermal for a table *)
Example ctor_setter_example :
  isIso Qops (ctor Qops (ATable Qops exH exK)) = false /\
  isIso Qops (via_setter Qops (ATable Qops exH exK)) = false /\
  isIso Qops (ctor Qops (AConst Qops 700)) = true.
Proof. repeat split. Qed.

(* the slow ramp of DESIGN.md section 7: 0.1 K per step for 100 steps, maxTempChange = 1 K *)
Definition ramp (T0 d : Q) (n : nat) : list Q := map (fun i => Qred (T0 + inject_Z (Z.of_nat i) * d)) (seq 1 n).
Definition slow_ops := euler_ops Qops (ramp 700 (1#10) 100).

(* repaired machine: the table is never further than 1 K from the current temperature *)
Example slow_ramp_repaired :
  let tr := trace Qops 1 700 [4%nat] slow_ops in
  forallb (fun s => forallb (forallb (fun e => Qle_bool (Qabs (l_cur Qops s - e)) 1)) (l_tabs Qops s)) tr = true /\
  l_cur Qops (last tr (init Qops 0 [])) == 710 /\ l_lookupT Qops (last tr (init Qops 0 [])) == 7099#10.
Proof. vm_compute. repeat split; reflexivity. Qed.

(* machine before the repair: never rebuilt, the table is 10 K away at the end *)
Example slow_ramp_unrepaired :
  let s := run_old Qops 1 700 [4%nat] slow_ops in
  l_tabs Qops s = [[700; 700; 700; 700]] /\ l_cur Qops s == 710 /\ l_dTemp Qops s == 0.
Proof. vm_compute. repeat split; reflexivity. Qed.

(* machine before the repair after one fast jump: dTemp is never cleared, so the table is rebuilt on
   every later call, also during a hold (here: 3 rebuilding calls at the same 710 K) *)
Example hold_rebuilds_unrepaired :
  let s := run_old Qops 1 700 [4%nat] (euler_ops Qops [710; 710; 710]) in
  l_dTemp Qops s == 10 /\ l_lookupT Qops s == 710.
Proof. vm_compute. repeat split; reflexivity. Qed.
Example hold_keeps_repaired :
  let s := run Qops 1 700 [4%nat] (euler_ops Qops [710; 710; 710]) in
  l_dTemp Qops s == 0 /\ l_lookupT Qops s == 710.
Proof. vm_compute. repeat split; reflexivity. Qed.

(* cooling after a rebuild, machine before the repair: 700 -> 701.5 (rebuilt) -> 700.9 -> 700.3:
   the table stays at 701.5, 1.2 K away *)
Example cooling_unrepaired :
  let s := run_old Qops 1 700 [2%nat] (euler_ops Qops [7015#10; 7009#10; 7003#10]) in
  l_tabs Qops s = [[7015#10; 7015#10]] /\ l_cur Qops s == 7003#10.
Proof. vm_compute. repeat split; reflexivity. Qed.
Close Scope Q_scope.

(* ---- refutation witnesses on the real-number instance (unrepaired code) ---------------------------- *)
Open Scope R_scope.

(* constructor /= setter: the table given to the constructor is flagged isothermal *)
Theorem ctor_eq_setter_refuted : exists a : targs Rops,
  ctor_old Rops a <> via_setter_old Rops a /\
  incubation_model Rops (ctor_old Rops a) = IncIsothermal /\
  incubation_model Rops (via_setter_old Rops a) = IncNonIsothermal.
Proof.
  exists (ATable Rops [0; 1] [700; 800]). split; [|split]; try reflexivity.
  intros H. apply (f_equal (isIso Rops)) in H. discriminate.
Qed.
Print Assumptions ctor_eq_setter_refuted.

(* the table drifts arbitrarily far: for EVERY schedule whose change per step is within the limit the
   unrepaired machine keeps the initial table *)
Theorem table_never_refreshed_old maxdT T0 sizes Ts : small_steps maxdT T0 Ts -> Ts <> [] ->
  let s := run_old Rops maxdT T0 sizes (euler_ops Rops Ts) in
  l_tabs Rops s = map (fun n => repeat T0 n) sizes /\ l_cur Rops s = last Ts 0.
Proof.
  intros Hs Hne. cbn zeta. unfold run_old.
  destruct (old_never_refreshes maxdT Ts (init Rops T0 sizes) eq_refl Hs) as (H1 & _ & _ & H4).
  split; [exact H1 | exact (H4 Hne)].
Qed.
Print Assumptions table_never_refreshed_old.

Theorem table_within_maxTempChange_refuted : exists maxdT T0 sizes ops, 0 <= maxdT /\
  let s := run_old Rops maxdT T0 sizes ops in
  exists tab e, In tab (l_tabs Rops s) /\ In e tab /\ maxdT < Rabs (l_cur Rops s - e).
Proof.
  exists 1, 700, [1%nat], (euler_ops Rops [700 + 6/10; 700 + 12/10]). split; [lra|].
  cbn zeta.
  destruct (table_never_refreshed_old 1 700 [1%nat] [700 + 6/10; 700 + 12/10]) as [H1 H2].
  - simpl. repeat split; auto; rewrite Rabs_right; lra.
  - discriminate.
  - cbn zeta in H1, H2. rewrite H1, H2. exists [700], 700. simpl. repeat split; auto.
    rewrite Rabs_right; lra.
Qed.
Print Assumptions table_within_maxTempChange_refuted.
