(* C13 - faithful model of the temperature bookkeeping of kawin:
     kawin/precipitation/PrecipitationParameters.py  TemperatureParameters (73-107)
     kawin/precipitation/KWNBase.py                  setup (483-499), _calculateDependentTerms /
                                                     postProcess (549-611), _calcNucleationRate (682: the
                                                     flag that selects the incubation-time formula)
     kawin/precipitation/KWNEuler.py                 _createLookupBinary, _growthRateBinary,
                                                     _updateParticleSizeDistribution (binary lookup table)
     kawin/diffusion/DiffusionParameters.py          TemperatureParameters (422-487)
   Executable definitions only (no proofs), polymorphic in the scalar record.

   Two versions of the pieces that were repaired are kept side by side:
     [ctor_old], [step_old]  what /repo did before the two `fix:` commits of C13 (kept for the
                             `..._refuted` witnesses in Examples.v and so that the harness can say
                             "the implementation behaves like the unrepaired machine"),
     [ctor], [step]          what the repaired code does; the theorems of Properties.v are about these. *)
From Coq Require Import List Bool ZArith Arith.
Require Import Kawin.Common.Ops Kawin.Common.Vec.
Import ListNotations.

Section C13.
Variable O : Ops.
Notation t := (T O).

(* ------------------------------------------------------------------------------------------ *)
(* TemperatureParameters of the precipitation package                                         *)

(* self.Tparameters / self.Tfunction *)
Inductive kind :=
| KNone                                   (* Tfunction = None : calling the object raises *)
| KConst (T0 : t)                         (* lambda t: self.Tparameters *)
| KTable (hours kelvin : list t)          (* lambda t: np.interp(t/3600, hours, kelvin, kelvin[0], kelvin[-1]) *)
| KFunc (f : t -> t).                     (* the user's function of the time in seconds *)

Record tparams := mkTP { isIso : bool;    (* self._isIsothermal *)
                         tkind : kind }.

(* the positional arguments *args of __init__ / setTemperatureParameters / model.setTemperature *)
Inductive targs :=
| A0                                      (* no argument (or more than two) *)
| AConst (T0 : t)                         (* one non-callable argument *)
| AFunc (f : t -> t)                      (* one callable argument *)
| ATable (hours kelvin : list t).         (* two arguments *)

Definition setIsothermalTemperature (T0 : t) : tparams := mkTP true (KConst T0).
Definition setTemperatureArray (h k : list t) : tparams := mkTP false (KTable h k).
Definition setTemperatureFunction (f : t -> t) : tparams := mkTP false (KFunc f).

(* setTemperatureParameters(args...) applied to an object in state p; the `else` branch does not touch
   the flag *)
Definition setTemperatureParameters (p : tparams) (a : targs) : tparams :=
  match a with
  | ATable h k => setTemperatureArray h k
  | AFunc f => setTemperatureFunction f
  | AConst T0 => setIsothermalTemperature T0
  | A0 => mkTP (isIso p) KNone
  end.

(* __init__ before the repair:   self.setTemperatureParameters(args...); self._isIsothermal = True *)
Definition ctor_old (a : targs) : tparams :=
  mkTP true (tkind (setTemperatureParameters (mkTP true KNone) a)).
(* __init__ after the repair:    self._isIsothermal = True; self.setTemperatureParameters(args...) *)
Definition ctor (a : targs) : tparams :=
  setTemperatureParameters (mkTP true KNone) a.

(* PrecipitateBase.__init__ installs TemperatureParameters() unless one is passed;
   model.setTemperature(args...) calls setTemperatureParameters on whatever is installed *)
Definition model_default : tparams := ctor A0.
Definition model_default_old : tparams := ctor_old A0.
Definition via_setter (a : targs) : tparams := setTemperatureParameters model_default a.
Definition via_setter_old (a : targs) : tparams := setTemperatureParameters model_default_old a.

(* np.interp(x, xp, fp, fp[0], fp[-1]) for non-decreasing xp (numpy/core/src/multiarray/compiled_base.c,
   arr_interp):  j = index with xp[j] <= x < xp[j+1] (for repeated break points: the LAST of them);
     x < xp[0] -> left ; x > xp[-1] -> right ; j = len-1 -> fp[j] ; xp[j] == x -> fp[j] ;
     else slope = (fp[j+1]-fp[j])/(xp[j+1]-xp[j]) ; slope*(x - xp[j]) + fp[j].
   (Common/Vec.v has a simpler [interp] that returns fp[0] at x = xp[0] even when xp[0] is repeated -
   a schedule that starts with an instantaneous jump - so the faithful one is written here.) *)
Fixpoint np_interp_go (xp fp : list t) (x : t) : t :=
  match xp, fp with
  | x0 :: ((x1 :: _) as xr), f0 :: ((f1 :: _) as fr) =>
      if ltb O x x1
      then (if eqb O x0 x then f0
            else add O (mul O (dvd O (sub O f1 f0) (sub O x1 x0)) (sub O x x0)) f0)
      else np_interp_go xr fr x
  | _ :: _, f0 :: _ => f0
  | _, _ => zero O
  end.
Definition np_interp (xp fp : list t) (x : t) : t :=
  match xp, fp with
  | x0 :: _, f0 :: _ =>
      if ltb O x x0 then f0
      else if ltb O (last xp x0) x then last fp f0
      else np_interp_go xp fp x
  | _, _ => zero O
  end.

(* t / 3600 *)
Definition hours_of (s : t) : t := dvd O s (ofZ O 3600).

(* __call__(t); KNone is totalised to 0 (the code raises TypeError) - theorems exclude it *)
Definition sched (p : tparams) (s : t) : t :=
  match tkind p with
  | KNone => zero O
  | KConst T0 => T0
  | KTable h k => np_interp h k (hours_of s)
  | KFunc f => f s
  end.
Definition callable (p : tparams) : bool := match tkind p with KNone => false | _ => true end.

(* KWNBase._calcNucleationRate line 682: which incubation-time formula is used *)
Inductive incubation := IncIsothermal | IncNonIsothermal.
Definition incubation_model (p : tparams) : incubation :=
  if isIso p then IncIsothermal else IncNonIsothermal.

(* ------------------------------------------------------------------------------------------ *)
(* what a run records: pData.time / pData.temperature                                          *)
Record pdata := mkPD { p_time : list t; p_temp : list t }.

(* PrecipitateBase.setup: pData.temperature[0] = temperatureParameters(pData.time[0]) *)
Definition setup_pd (p : tparams) (t0 : t) : pdata := mkPD [t0] [sched p t0].
(* postProcess(t, x): _calculateDependentTerms sets _currY.time = [t], _currY.temperature =
   [temperatureParameters(t)]; _appendArrays(_currY) *)
Definition post_process (p : tparams) (d : pdata) (tn : t) : pdata :=
  mkPD (p_time d ++ [tn]) (p_temp d ++ [sched p tn]).
Definition run_pd (p : tparams) (t0 : t) (ts : list t) : pdata :=
  fold_left (post_process p) ts (setup_pd p t0).

(* several solve() calls with the temperature specification changed in between (setup runs once, at the
   first call): a segment = the parameter object in force during one solve call and the times of its
   accepted steps *)
Definition run_seg (d : pdata) (seg : tparams * list t) : pdata :=
  fold_left (post_process (fst seg)) (snd seg) d.
Definition run_segs (p0 : tparams) (t0 : t) (segs : list (tparams * list t)) : pdata :=
  fold_left run_seg segs (setup_pd p0 t0).

(* ------------------------------------------------------------------------------------------ *)
(* TemperatureParameters of the diffusion package (no flag; functions of (z, t) -> array)       *)
Inductive dkind :=
| DNone
| DConst (T0 : t)                         (* lambda z, t: self.Tparameters*np.ones(len(z)) *)
| DTable (hours kelvin : list t)          (* lambda z, t: np.interp(t/3600, ...) * np.ones(len(z)) *)
| DFunc (f : list t -> t -> list t).      (* lambda z, t: self.Tparameters(z, t) *)
Inductive dargs :=
| DA0 | DAConst (T0 : t) | DAFunc (f : list t -> t -> list t) | DATable (hours kelvin : list t).

Definition dctor (a : dargs) : dkind :=
  match a with
  | DATable h k => DTable h k | DAFunc f => DFunc f | DAConst T0 => DConst T0 | DA0 => DNone
  end.
(* DiffusionModel.setTemperature / setTemperatureArray / setTemperatureFunction: each calls the
   corresponding setter of whatever object is installed; the previous state is overwritten *)
Definition dvia_setter (prev : dkind) (a : dargs) : dkind :=
  match a with
  | DATable h k => DTable h k | DAFunc f => DFunc f | DAConst T0 => DConst T0 | DA0 => prev
  end.
Definition dsched (k : dkind) (z : list t) (s : t) : list t :=
  match k with
  | DNone => []
  | DConst T0 => map (fun _ => mul O T0 (one O)) z
  | DTable h kv => map (fun _ => mul O (np_interp h kv (hours_of s)) (one O)) z
  | DFunc f => f z s
  end.

(* ------------------------------------------------------------------------------------------ *)
(* the binary lookup table of KWNEuler and the rule that refreshes it                           *)
(* The code stores compositions; the model stores the TEMPERATURE each stored composition was
   computed at (fields marked "ghost"), which is what the property is about. *)
Record lstate := mkL {
  l_dTemp : t;            (* self.dTemp *)
  l_lookupT : t;          (* self._lookupTemp  (repaired code; ghost for the old machine) *)
  l_tabs : list (list t); (* ghost: per phase, per entry of PSDXalpha/PSDXbeta[p]: temperature it was computed at *)
  l_xeqT : t;             (* ghost: temperature self._lookupXEq was computed at *)
  l_outT : t;             (* ghost: temperature of the xEqAlpha/xEqBeta handed out by the last _growthRateBinary *)
  l_cur : t;              (* Y.temperature[0] of the last _growthRateBinary call: the current temperature *)
  l_recT : t;             (* pData.temperature[pData.n] *)
  l_recXeqT : t           (* ghost: temperature pData.xEqAlpha/xEqBeta[pData.n] were computed at *)
}.

Inductive lop :=
| OGrowth (Tn : t)                       (* _growthRateBinary(Y), Y.temperature[0] = Tn *)
| ORecord                                (* _appendArrays(_currY) / pData.setSlice(Y, 0): Y becomes the latest record *)
| ORemeshFull (sizes : list nat)         (* _updateParticleSizeDistribution, bins re-sized: _createLookupBinary *)
| ORemeshExtend (p added newlen : nat).  (* ... bins appended to phase p: entries [added:] computed, length newlen *)

(* _createLookupBinary(Tb): every phase gets a fresh table of bins+1 entries, all at Tb *)
Definition create_lookup (Tb : t) (sizes : list nat) (s : lstate) : lstate :=
  mkL (l_dTemp s) Tb (map (fun n => repeat Tb n) sizes) Tb (l_outT s) (l_cur s) (l_recT s) (l_recXeqT s).

Definition set_nth {A} (l : list A) (k : nat) (v : A) : list A :=
  firstn k l ++ match skipn k l with [] => [] | _ :: r => v :: r end.
Definition extend_tab (Tb : t) (p added newlen : nat) (s : lstate) : lstate :=
  let old := nth p (l_tabs s) [] in
  mkL (l_dTemp s) (l_lookupT s)
      (set_nth (l_tabs s) p (firstn added old ++ repeat Tb (newlen - added)))
      (l_xeqT s) (l_outT s) (l_cur s) (l_recT s) (l_recXeqT s).

Definition sizes_of (s : lstate) : list nat := map (@length t) (l_tabs s).
Definition record (s : lstate) : lstate :=
  mkL (l_dTemp s) (l_lookupT s) (l_tabs s) (l_xeqT s) (l_outT s) (l_cur s) (l_cur s) (l_outT s).

(* -- repaired --
     self.dTemp = T - self._lookupTemp
     if np.abs(self.dTemp) > maxTempChange: xEq = self._createLookupBinary(T); self.dTemp = 0
     else:                                  xEq = self._lookupXEq *)
Definition growth (maxdT Tn : t) (s : lstate) : lstate :=
  let d := sub O Tn (l_lookupT s) in
  if ltb O maxdT (absT O d)
  then let s' := create_lookup Tn (sizes_of s) s in
       mkL (zero O) (l_lookupT s') (l_tabs s') (l_xeqT s') Tn Tn (l_recT s) (l_recXeqT s)
  else mkL d (l_lookupT s) (l_tabs s) (l_xeqT s) (l_xeqT s) Tn (l_recT s) (l_recXeqT s).
(* re-meshing computes the new size classes at the temperature of the table *)
Definition step (maxdT : t) (s : lstate) (o : lop) : lstate :=
  match o with
  | OGrowth Tn => growth maxdT Tn s
  | ORecord => record s
  | ORemeshFull sizes => create_lookup (l_lookupT s) sizes s
  | ORemeshExtend p a n => extend_tab (l_lookupT s) p a n s
  end.

(* -- before the repair --
     self.dTemp += T - self.pData.temperature[self.pData.n]
     if np.abs(self.dTemp) > maxTempChange: xEq = self._createLookupBinary(T)
     else:                                  xEq = pData.xEq[pData.n]; self.dTemp = 0 *)
Definition growth_old (maxdT Tn : t) (s : lstate) : lstate :=
  let d := add O (l_dTemp s) (sub O Tn (l_recT s)) in
  if ltb O maxdT (absT O d)
  then let s' := create_lookup Tn (sizes_of s) s in
       mkL d (l_lookupT s') (l_tabs s') (l_xeqT s') Tn Tn (l_recT s) (l_recXeqT s)
  else mkL (zero O) (l_lookupT s) (l_tabs s) (l_xeqT s) (l_recXeqT s) Tn (l_recT s) (l_recXeqT s).
(* re-meshing computed the new size classes at the latest recorded temperature *)
Definition step_old (maxdT : t) (s : lstate) (o : lop) : lstate :=
  match o with
  | OGrowth Tn => growth_old maxdT Tn s
  | ORecord => record s
  | ORemeshFull sizes => create_lookup (l_recT s) sizes s
  | ORemeshExtend p a n => extend_tab (l_recT s) p a n s
  end.

(* KWNEuler.setup: pData.temperature[0] = T0, pData.xEq[0] = _createLookupBinary(T0); the call of
   _growthRate(Y) and pData.setSlice(Y, 0) that follow are the first two operations of every run *)
Definition init (T0 : t) (sizes : list nat) : lstate :=
  mkL (zero O) T0 (map (fun n => repeat T0 n) sizes) T0 T0 T0 T0 T0.

Definition run (maxdT T0 : t) (sizes : list nat) (ops : list lop) : lstate :=
  fold_left (step maxdT) ops (init T0 sizes).
Definition run_old (maxdT T0 : t) (sizes : list nat) (ops : list lop) : lstate :=
  fold_left (step_old maxdT) ops (init T0 sizes).

(* all intermediate states, initial one first *)
Fixpoint trace_from (stp : lstate -> lop -> lstate) (s : lstate) (ops : list lop) : list lstate :=
  s :: match ops with [] => [] | o :: r => trace_from stp (stp s o) r end.
Definition trace (maxdT T0 : t) (sizes : list nat) (ops : list lop) : list lstate :=
  trace_from (step maxdT) (init T0 sizes) ops.
Definition trace_old (maxdT T0 : t) (sizes : list nat) (ops : list lop) : list lstate :=
  trace_from (step_old maxdT) (init T0 sizes) ops.

(* the accepted Euler step of a run, as operations: postProcess computes the growth rate at the new
   temperature and records it *)
Definition euler_ops (Ts : list t) : list lop :=
  flat_map (fun Tn => [OGrowth Tn; ORecord]) Ts.

End C13.

Arguments KNone {O}.
Arguments A0 {O}.
Arguments DNone {O}.
Arguments DA0 {O}.
Arguments ORecord {O}.
Arguments ORemeshFull {O} sizes.
Arguments ORemeshExtend {O} p added newlen.
Arguments set_nth {A} l k v.
