(* C13 - lemmas about the real-number instance of the temperature model. *)
From Coq Require Import Reals List Bool ZArith Arith Lia Lra Psatz.
Require Import Kawin.Common.Ops Kawin.Common.Vec Kawin.Common.VecLemmas Kawin.C13.Model.
Import ListNotations.
Open Scope R_scope.

Tactic Notation "lia" := (cbn [T Rops] in *; Lia.lia).
Tactic Notation "lra" := (cbn [T Rops] in *; Lra.lra).
Tactic Notation "nra" := (cbn [T Rops] in *; Lra.nra).

Notation nthR l k := (nth k l 0).

(* break points in non-decreasing order (repeated times = instantaneous jump) *)
Definition nondecr (l : list R) : Prop :=
  forall i j, (i <= j < length l)%nat -> nthR l i <= nthR l j.
Definition incr (l : list R) : Prop :=
  forall i j, (i < j < length l)%nat -> nthR l i < nthR l j.

Lemma incr_nondecr l : incr l -> nondecr l.
Proof.
  intros H i j Hij. destruct (Nat.eq_dec i j) as [->|Hne]; [lra|].
  apply Rlt_le, H. lia.
Qed.

Lemma nondecr_tl a l : nondecr (a :: l) -> nondecr l.
Proof. intros H i j Hij. apply (H (S i) (S j)). simpl. lia. Qed.

Lemma absT_Rabs x : absT Rops x = Rabs x.
Proof.
  unfold absT. Rnorm. destruct (Rltb x 0) eqn:E; Rbool.
  - rewrite Rabs_left; lra.
  - rewrite Rabs_right; lra.
Qed.

(* ---------------------------------------------------------------------------------------- *)
(* np.interp                                                                                  *)

(* the value on segment k *)
Definition seg (xp fp : list R) (k : nat) (x : R) : R :=
  nthR fp k + (nthR fp (S k) - nthR fp k) / (nthR xp (S k) - nthR xp k) * (x - nthR xp k).

Lemma go_cons2 x0 x1 xr f0 f1 fr x :
  np_interp_go Rops (x0 :: x1 :: xr) (f0 :: f1 :: fr) x =
    if Rltb x x1
    then (if Reqb x0 x then f0 else (f1 - f0) / (x1 - x0) * (x - x0) + f0)
    else np_interp_go Rops (x1 :: xr) (f1 :: fr) x.
Proof. reflexivity. Qed.

Lemma go_between xp : forall fp k x,
  length xp = length fp -> nondecr xp -> (S k < length xp)%nat ->
  nthR xp k <= x < nthR xp (S k) ->
  np_interp_go Rops xp fp x = seg xp fp k x.
Proof.
  induction xp as [|x0 xr IH]; intros fp k x Hl Hs Hk Hx; [simpl in Hk; lia|].
  destruct xr as [|x1 xr]; [simpl in Hk; lia|].
  destruct fp as [|f0 [|f1 fr]]; try (simpl in Hl; lia).
  rewrite go_cons2.
  destruct k as [|k].
  - cbn [nth] in Hx. destruct (Rltb x x1) eqn:E; Rbool; [|lra].
    unfold seg. cbn [nth].
    destruct (Reqb x0 x) eqn:E2; Rbool.
    + subst x. replace (x0 - x0) with 0 by lra. lra.
    + lra.
  - assert (H1 : x1 <= x).
    { specialize (Hs 1%nat (S k) ltac:(simpl in *; lia)). cbn [nth] in Hs, Hx. cbn [nth]. lra. }
    destruct (Rltb x x1) eqn:E; Rbool; [lra|].
    transitivity (seg (x1 :: xr) (f1 :: fr) k x); [|reflexivity].
    apply IH; [simpl in *; lia | eapply nondecr_tl; eauto | simpl in *; lia | exact Hx].
Qed.

Lemma go_at_end xp : forall fp x,
  length xp = length fp -> xp <> [] ->
  (forall j, (j < length xp)%nat -> nthR xp j <= x) ->
  np_interp_go Rops xp fp x = last fp 0.
Proof.
  induction xp as [|x0 xr IH]; intros fp x Hl Hne Hx; [congruence|].
  destruct fp as [|f0 fr]; [simpl in Hl; lia|].
  destruct xr as [|x1 xr].
  - destruct fr; [reflexivity | simpl in Hl; lia].
  - destruct fr as [|f1 fr]; [simpl in Hl; lia|].
    rewrite go_cons2.
    pose proof (Hx 1%nat ltac:(simpl; lia)) as H1. cbn [nth] in H1.
    destruct (Rltb x x1) eqn:E; Rbool; [lra|].
    transitivity (last (f1 :: fr) 0); [|reflexivity].
    apply IH; [simpl in *; lia | discriminate |].
    intros j Hj. apply (Hx (S j)). simpl in *. lia.
Qed.

Lemma last_default {A} (l : list A) d d' : l <> [] -> last l d = last l d'.
Proof.
  induction l as [|a [|b l] IH]; intros H; [congruence | reflexivity |].
  change (last (b :: l) d = last (b :: l) d'). apply IH. discriminate.
Qed.

(* before the first break point: the first value; at or after the last: the last value *)
Lemma interp_left xp fp x : xp <> [] -> length xp = length fp -> x < nthR xp 0 ->
  np_interp Rops xp fp x = nthR fp 0.
Proof.
  intros Hne Hl Hx. destruct xp as [|x0 xr]; [congruence|]. destruct fp as [|f0 fr]; [simpl in Hl; lia|].
  unfold np_interp. Rnorm. cbn [nth] in *. destruct (Rltb x x0) eqn:E; Rbool; [reflexivity | lra].
Qed.

Lemma interp_right xp fp x : xp <> [] -> length xp = length fp -> nondecr xp ->
  nthR xp (length xp - 1) <= x -> np_interp Rops xp fp x = nthR fp (length fp - 1).
Proof.
  intros Hne Hl Hs Hx. destruct xp as [|x0 xr]; [congruence|]. destruct fp as [|f0 fr]; [simpl in Hl; lia|].
  unfold np_interp. Rnorm.
  assert (H0 : x0 <= x).
  { pose proof (Hs 0%nat (length (x0 :: xr) - 1)%nat ltac:(simpl; lia)) as Hs0.
    change (nth 0 (x0 :: xr) 0) with x0 in Hs0. lra. }
  destruct (Rltb x x0) eqn:E; Rbool; [lra|].
  rewrite <- (last_nth (f0 :: fr) 0).
  destruct (Rltb (last (x0 :: xr) x0) x) eqn:E2; Rbool.
  - apply last_default. discriminate.
  - apply go_at_end; [exact Hl | discriminate |].
    intros j Hj. pose proof (Hs j (length (x0 :: xr) - 1)%nat ltac:(lia)) as Hsj. lra.
Qed.

(* between two break points: the straight line through them *)
Lemma interp_between xp fp k x : length xp = length fp -> nondecr xp -> (S k < length xp)%nat ->
  nthR xp k <= x < nthR xp (S k) -> np_interp Rops xp fp x = seg xp fp k x.
Proof.
  intros Hl Hs Hk Hx. destruct xp as [|x0 xr]; [simpl in Hk; lia|]. destruct fp as [|f0 fr]; [simpl in Hl; lia|].
  unfold np_interp. Rnorm.
  assert (H0 : x0 <= x).
  { pose proof (Hs 0%nat k ltac:(lia)) as Hs0. change (nth 0 (x0 :: xr) 0) with x0 in Hs0. lra. }
  assert (H1 : x < last (x0 :: xr) x0).
  { rewrite (last_nth (x0 :: xr) x0). rewrite (nth_indep _ x0 0) by lia.
    pose proof (Hs (S k) (length (x0 :: xr) - 1)%nat ltac:(lia)) as Hs1. lra. }
  destruct (Rltb x x0) eqn:E; Rbool; [lra|].
  destruct (Rltb (last (x0 :: xr) x0) x) eqn:E2; Rbool; [lra|].
  apply go_between; auto.
Qed.

(* a break point is hit exactly (for a repeated time: the value of the last repetition) *)
Lemma interp_hits xp fp k : length xp = length fp -> nondecr xp -> (k < length xp)%nat ->
  ((S k < length xp)%nat -> nthR xp k < nthR xp (S k)) ->
  np_interp Rops xp fp (nthR xp k) = nthR fp k.
Proof.
  intros Hl Hs Hk Hnext.
  destruct (Nat.eq_dec (S k) (length xp)) as [He|Hne].
  - replace k with (length xp - 1)%nat at 1 by lia.
    rewrite interp_right; auto.
    + f_equal. lia.
    + intros ->. simpl in Hk. lia.
    + lra.
  - rewrite (interp_between xp fp k); auto; [|lia| specialize (Hnext ltac:(lia)); lra].
    unfold seg. replace (nthR xp k - nthR xp k) with 0 by lra. lra.
Qed.

(* linear interpolation never leaves the interval spanned by the two neighbouring values *)
Lemma seg_bounded xp fp k x : nthR xp k <= x < nthR xp (S k) ->
  Rmin (nthR fp k) (nthR fp (S k)) <= seg xp fp k x <= Rmax (nthR fp k) (nthR fp (S k)).
Proof.
  intros Hx. unfold seg.
  set (a := nthR xp k) in *. set (b := nthR xp (S k)) in *. set (u := nthR fp k). set (v := nthR fp (S k)).
  assert (Hab : 0 < b - a) by lra.
  set (w := (x - a) / (b - a)).
  assert (Hw : 0 <= w < 1).
  { unfold w. split.
    - apply Rmult_le_pos; [lra|]. left. apply Rinv_0_lt_compat. lra.
    - apply (Rmult_lt_reg_r (b - a)); [lra|]. unfold Rdiv. rewrite Rmult_assoc, Rinv_l by lra. lra. }
  replace (u + (v - u) / (b - a) * (x - a)) with (u + (v - u) * w) by (unfold w; field; lra).
  unfold Rmin, Rmax. destruct (Rle_dec u v); nra.
Qed.

(* ---------------------------------------------------------------------------------------- *)
(* schedules                                                                                  *)

Lemma hours_of_3600 h : hours_of Rops (3600 * h) = h.
Proof. unfold hours_of. Rnorm. field. Qed.

Lemma sched_table_hits b hrs kel k : length hrs = length kel -> nondecr hrs -> (k < length hrs)%nat ->
  ((S k < length hrs)%nat -> nthR hrs k < nthR hrs (S k)) ->
  sched Rops (mkTP Rops b (KTable Rops hrs kel)) (3600 * nthR hrs k) = nthR kel k.
Proof. intros. unfold sched. cbn [tkind]. rewrite hours_of_3600. apply interp_hits; auto. Qed.

Lemma sched_table_between b hrs kel k s : length hrs = length kel -> nondecr hrs -> (S k < length hrs)%nat ->
  3600 * nthR hrs k <= s < 3600 * nthR hrs (S k) ->
  sched Rops (mkTP Rops b (KTable Rops hrs kel)) s =
    nthR kel k + (nthR kel (S k) - nthR kel k) / (3600 * nthR hrs (S k) - 3600 * nthR hrs k) * (s - 3600 * nthR hrs k).
Proof.
  intros Hl Hs Hk Hx. unfold sched. cbn [tkind].
  assert (Hh : nthR hrs k <= hours_of Rops s < nthR hrs (S k)).
  { unfold hours_of. Rnorm. split.
    - apply (Rmult_le_reg_l 3600); [lra|]. replace (3600 * (s / 3600)) with s by field. lra.
    - apply (Rmult_lt_reg_l 3600); [lra|]. replace (3600 * (s / 3600)) with s by field. lra. }
  rewrite (interp_between hrs kel k); auto. unfold seg, hours_of. Rnorm. field. lra.
Qed.

Lemma sched_table_clamps b hrs kel s : hrs <> [] -> length hrs = length kel -> nondecr hrs ->
  (s < 3600 * nthR hrs 0 -> sched Rops (mkTP Rops b (KTable Rops hrs kel)) s = nthR kel 0) /\
  (3600 * nthR hrs (length hrs - 1) <= s ->
     sched Rops (mkTP Rops b (KTable Rops hrs kel)) s = nthR kel (length kel - 1)).
Proof.
  intros Hne Hl Hs. unfold sched. cbn [tkind]. split; intros Hx.
  - apply interp_left; auto. unfold hours_of. Rnorm.
    apply (Rmult_lt_reg_l 3600); [lra|]. replace (3600 * (s / 3600)) with s by field. lra.
  - apply interp_right; auto. unfold hours_of. Rnorm.
    apply (Rmult_le_reg_l 3600); [lra|]. replace (3600 * (s / 3600)) with s by field. lra.
Qed.

(* constructor = setter *)
Lemma ctor_setter a : ctor Rops a = via_setter Rops a.
Proof. destruct a; reflexivity. Qed.

Lemma setter_overrides p a : a <> A0 -> setTemperatureParameters Rops p a = ctor Rops a.
Proof. destruct a; intros H; try reflexivity. congruence. Qed.

Lemma ctor_flag a :
  isIso Rops (ctor Rops a) = match a with AConst _ _ | A0 => true | _ => false end.
Proof. destruct a; reflexivity. Qed.

Lemma ctor_sched a s :
  sched Rops (ctor Rops a) s =
    match a with
    | A0 => 0
    | AConst _ T0 => T0
    | AFunc _ f => f s
    | ATable _ h k => np_interp Rops h k (s / 3600)
    end.
Proof. destruct a; reflexivity. Qed.

(* what a run records *)
Lemma fold_post p ts : forall d,
  fold_left (post_process Rops p) ts d =
    mkPD Rops (p_time Rops d ++ ts) (p_temp Rops d ++ map (sched Rops p) ts).
Proof.
  induction ts as [|a ts IH]; intros d; simpl.
  - rewrite !app_nil_r. destruct d; reflexivity.
  - rewrite IH. unfold post_process. cbn [p_time p_temp]. rewrite <- !app_assoc. reflexivity.
Qed.

Lemma run_pd_spec p t0 ts :
  p_time Rops (run_pd Rops p t0 ts) = t0 :: ts /\
  p_temp Rops (run_pd Rops p t0 ts) = map (sched Rops p) (t0 :: ts).
Proof. unfold run_pd. rewrite fold_post. simpl. auto. Qed.

Lemma recorded_T p t0 ts n :
  let d := run_pd Rops p t0 ts in
  length (p_time Rops d) = S (length ts) /\ length (p_temp Rops d) = S (length ts) /\
  ((n <= length ts)%nat -> nthR (p_temp Rops d) n = sched Rops p (nthR (p_time Rops d) n)).
Proof.
  destruct (run_pd_spec p t0 ts) as [H1 H2]. cbn zeta. rewrite H1, H2.
  split; [reflexivity|]. split; [rewrite map_length; reflexivity|].
  intros Hn.
  rewrite (nth_indep (map (sched Rops p) (t0 :: ts)) 0 (sched Rops p 0)) by (rewrite map_length; simpl; lia).
  apply map_nth.
Qed.

(* several solve calls, parameter object replaced in between: every step carries the temperature of the
   schedule in force during its own segment *)
Lemma run_seg_spec d sg :
  run_seg Rops d sg = mkPD Rops (p_time Rops d ++ snd sg) (p_temp Rops d ++ map (sched Rops (fst sg)) (snd sg)).
Proof. unfold run_seg. apply fold_post. Qed.

Lemma fold_seg segs : forall d,
  fold_left (run_seg Rops) segs d =
    mkPD Rops (p_time Rops d ++ concat (map snd segs))
              (p_temp Rops d ++ concat (map (fun sg => map (sched Rops (fst sg)) (snd sg)) segs)).
Proof.
  induction segs as [|sg segs IH]; intros d.
  - simpl. rewrite !app_nil_r. destruct d; reflexivity.
  - cbn [fold_left map concat]. rewrite IH, run_seg_spec. cbn [p_time p_temp]. rewrite <- !app_assoc. reflexivity.
Qed.

Lemma run_segs_spec p0 t0 segs :
  p_time Rops (run_segs Rops p0 t0 segs) = t0 :: concat (map snd segs) /\
  p_temp Rops (run_segs Rops p0 t0 segs) =
    sched Rops p0 t0 :: concat (map (fun sg => map (sched Rops (fst sg)) (snd sg)) segs).
Proof. unfold run_segs. rewrite fold_seg. split; reflexivity. Qed.

(* diffusion package *)
Lemma dctor_setter prev a : a <> DA0 -> dctor Rops a = dvia_setter Rops prev a.
Proof. destruct a; intros H; try reflexivity. congruence. Qed.

Lemma nth_map_const {A B} (c : B) (z : list A) k d : (k < length z)%nat -> nth k (map (fun _ => c) z) d = c.
Proof. revert k. induction z as [|a z IH]; intros [|k] H; simpl in *; try lia; auto. apply IH. lia. Qed.

Lemma dsched_uniform a z s k : (k < length z)%nat ->
  match a with DAFunc _ _ | DA0 => True
  | DAConst _ T0 => nthR (dsched Rops (dctor Rops a) z s) k = T0
  | DATable _ h kv => nthR (dsched Rops (dctor Rops a) z s) k = np_interp Rops h kv (s / 3600)
  end /\
  match a with DAFunc _ _ | DA0 => True | _ => length (dsched Rops (dctor Rops a) z s) = length z end.
Proof.
  intros Hk. destruct a; cbn [dctor dsched]; auto; split; try apply map_length.
  - rewrite nth_map_const by exact Hk. Rnorm. lra.
  - rewrite nth_map_const by exact Hk. unfold hours_of. Rnorm. lra.
Qed.

(* ---------------------------------------------------------------------------------------- *)
(* the lookup-table refresh rule                                                              *)

Definition all_at (Tb : R) (tabs : list (list R)) : Prop :=
  forall tab e, In tab tabs -> In e tab -> e = Tb.

(* the invariant of the repaired machine *)
Definition inv (maxdT : R) (s : lstate Rops) : Prop :=
  all_at (l_lookupT Rops s) (l_tabs Rops s) /\
  l_xeqT Rops s = l_lookupT Rops s /\
  l_outT Rops s = l_lookupT Rops s /\
  l_dTemp Rops s = l_cur Rops s - l_lookupT Rops s /\
  Rabs (l_cur Rops s - l_lookupT Rops s) <= maxdT /\
  Rabs (l_recT Rops s - l_recXeqT Rops s) <= maxdT.

Lemma all_at_fresh Tb sizes : all_at Tb (map (fun n => repeat Tb n) sizes).
Proof.
  intros tab e Ht He. apply in_map_iff in Ht as (n & <- & _). eapply repeat_spec; eauto.
Qed.

Lemma in_set_nth {A} (l : list A) k v x : In x (set_nth l k v) -> In x l \/ x = v.
Proof.
  unfold set_nth. intros H. apply in_app_or in H as [H|H].
  - left. rewrite <- (firstn_skipn k l). apply in_or_app. auto.
  - destruct (skipn k l) as [|a r] eqn:E; [contradiction|]. destruct H as [H|H]; auto.
    left. rewrite <- (firstn_skipn k l). apply in_or_app. right. rewrite E. right. exact H.
Qed.

Lemma in_firstn {A} (l : list A) n x : In x (firstn n l) -> In x l.
Proof. intros H. rewrite <- (firstn_skipn n l). apply in_or_app. auto. Qed.

Lemma set_nth_length {A} (l : list A) k v : length (set_nth l k v) = length l.
Proof.
  unfold set_nth. rewrite app_length. rewrite <- (firstn_skipn k l) at 3. rewrite app_length.
  f_equal. destruct (skipn k l); reflexivity.
Qed.

Lemma Rabs_self0 x : Rabs (x - x) = 0.
Proof. replace (x - x) with 0 by lra. apply Rabs_R0. Qed.

Lemma inv_init maxdT T0 sizes : 0 <= maxdT -> inv maxdT (init Rops T0 sizes).
Proof.
  intros H. unfold inv, init. cbn [l_lookupT l_tabs l_xeqT l_outT l_dTemp l_cur l_recT l_recXeqT].
  repeat split; try reflexivity; try (rewrite Rabs_self0; exact H).
  - apply all_at_fresh.
  - Rnorm. lra.
Qed.

Lemma inv_step maxdT s o : 0 <= maxdT -> inv maxdT s -> inv maxdT (step Rops maxdT s o).
Proof.
  intros Hm (Ha & Hx & Ho & Hd & Hc & Hr). destruct o as [Tn| |sizes|p a n]; cbn [step].
  - unfold growth. rewrite absT_Rabs. Rnorm.
    destruct (Rltb maxdT (Rabs (Tn - l_lookupT Rops s))) eqn:E; Rbool;
      unfold inv; cbn [create_lookup l_lookupT l_tabs l_xeqT l_outT l_dTemp l_cur l_recT l_recXeqT].
    + repeat split; try reflexivity; try (rewrite Rabs_self0; exact Hm); auto.
      * apply all_at_fresh.
      * lra.
    + repeat split; auto.
  - unfold inv, record. cbn [l_lookupT l_tabs l_xeqT l_outT l_dTemp l_cur l_recT l_recXeqT].
    repeat split; auto. rewrite Ho. exact Hc.
  - unfold inv, create_lookup. cbn [l_lookupT l_tabs l_xeqT l_outT l_dTemp l_cur l_recT l_recXeqT].
    repeat split; auto. apply all_at_fresh.
  - unfold inv, extend_tab. cbn [l_lookupT l_tabs l_xeqT l_outT l_dTemp l_cur l_recT l_recXeqT].
    repeat split; auto.
    intros tab e Ht He. apply in_set_nth in Ht as [Ht|Ht]; [eapply Ha; eauto|]. subst tab.
    apply in_app_or in He as [He|He].
    + apply in_firstn in He.
      destruct (Nat.lt_ge_cases p (length (l_tabs Rops s))) as [Hp|Hp].
      * eapply Ha; [apply nth_In; exact Hp | exact He].
      * rewrite nth_overflow in He by exact Hp. contradiction.
    + eapply repeat_spec; eauto.
Qed.

Lemma inv_fold maxdT ops : forall s, 0 <= maxdT -> inv maxdT s ->
  inv maxdT (fold_left (step Rops maxdT) ops s).
Proof. induction ops as [|o ops IH]; intros s Hm Hs; simpl; auto. apply IH; auto. apply inv_step; auto. Qed.

Lemma inv_trace maxdT ops : forall s, 0 <= maxdT -> inv maxdT s ->
  Forall (inv maxdT) (trace_from Rops (step Rops maxdT) s ops).
Proof.
  induction ops as [|o ops IH]; intros s Hm Hs; simpl; constructor; auto.
  apply IH; auto. apply inv_step; auto.
Qed.

(* the property, as a consequence of the invariant *)
Definition within (maxdT : R) (s : lstate Rops) : Prop :=
  Forall (Forall (fun e => Rabs (l_cur Rops s - e) <= maxdT)) (l_tabs Rops s) /\
  Rabs (l_cur Rops s - l_outT Rops s) <= maxdT /\
  Rabs (l_recT Rops s - l_recXeqT Rops s) <= maxdT.

Lemma inv_within maxdT s : inv maxdT s -> within maxdT s.
Proof.
  intros (Ha & Hx & Ho & Hd & Hc & Hr). unfold within. repeat split; auto.
  - apply Forall_forall. intros tab Ht. apply Forall_forall. intros e He.
    rewrite (Ha tab e Ht He). exact Hc.
  - rewrite Ho. exact Hc.
Qed.

Lemma table_within maxdT T0 sizes ops : 0 <= maxdT ->
  Forall (within maxdT) (trace Rops maxdT T0 sizes ops).
Proof.
  intros Hm. unfold trace. eapply Forall_impl; [apply inv_within|].
  apply inv_trace; auto. apply inv_init; auto.
Qed.

Lemma table_within_final maxdT T0 sizes ops : 0 <= maxdT -> within maxdT (run Rops maxdT T0 sizes ops).
Proof. intros Hm. apply inv_within. unfold run. apply inv_fold; auto. apply inv_init; auto. Qed.

(* one table = one temperature; dTemp is the drift from it *)
Definition consistent (s : lstate Rops) : Prop :=
  (forall tab e, In tab (l_tabs Rops s) -> In e tab -> e = l_lookupT Rops s) /\
  l_xeqT Rops s = l_lookupT Rops s /\ l_outT Rops s = l_lookupT Rops s /\
  l_dTemp Rops s = l_cur Rops s - l_lookupT Rops s.

Lemma table_consistent maxdT T0 sizes ops : 0 <= maxdT ->
  Forall consistent (trace Rops maxdT T0 sizes ops).
Proof.
  intros Hm. unfold trace. eapply Forall_impl; [|apply inv_trace; [exact Hm | apply inv_init; exact Hm]].
  intros s (Ha & Hx & Ho & Hd & _). unfold consistent. auto.
Qed.

(* the table is refreshed when, and only when, the drift exceeds the limit *)
Lemma sizes_fresh Tb (sizes : list nat) : map (@length R) (map (fun n => repeat Tb n) sizes) = sizes.
Proof. rewrite map_map. rewrite <- (map_id sizes) at 2. apply map_ext. intros n. apply repeat_length. Qed.

Lemma growth_refresh maxdT Tn s :
  let s' := growth Rops maxdT Tn s in
  l_cur Rops s' = Tn /\ sizes_of Rops s' = sizes_of Rops s /\
  (maxdT < Rabs (Tn - l_lookupT Rops s) ->
     l_lookupT Rops s' = Tn /\ l_outT Rops s' = Tn /\ all_at Tn (l_tabs Rops s')) /\
  (Rabs (Tn - l_lookupT Rops s) <= maxdT ->
     l_lookupT Rops s' = l_lookupT Rops s /\ l_tabs Rops s' = l_tabs Rops s /\ l_outT Rops s' = l_xeqT Rops s).
Proof.
  cbn zeta. unfold growth. rewrite absT_Rabs. Rnorm.
  destruct (Rltb maxdT (Rabs (Tn - l_lookupT Rops s))) eqn:E; Rbool;
    cbn [create_lookup l_lookupT l_tabs l_xeqT l_outT l_dTemp l_cur l_recT l_recXeqT sizes_of].
  - split; [reflexivity|]. split; [apply sizes_fresh|]. split.
    + intros _. split; [reflexivity|]. split; [reflexivity|]. apply all_at_fresh.
    + intros H. lra.
  - split; [reflexivity|]. split; [reflexivity|]. split.
    + intros H. lra.
    + intros _. auto.
Qed.

(* a hold never rebuilds: once the table is within the limit, repeating the same temperature
   leaves it alone *)
Lemma hold_no_rebuild maxdT s : 0 <= maxdT -> inv maxdT s ->
  l_tabs Rops (growth Rops maxdT (l_cur Rops s) s) = l_tabs Rops s /\
  l_lookupT Rops (growth Rops maxdT (l_cur Rops s) s) = l_lookupT Rops s.
Proof.
  intros Hm (Ha & Hx & Ho & Hd & Hc & Hr).
  destruct (growth_refresh maxdT (l_cur Rops s) s) as (_ & _ & _ & H). cbn zeta in H.
  destruct (H Hc) as (H1 & H2 & _). auto.
Qed.

(* re-meshing keeps the number of phases and gives phase p the requested number of entries *)
Lemma extend_length Tb p a n s : (p < length (l_tabs Rops s))%nat -> (a <= length (nth p (l_tabs Rops s) []))%nat ->
  (a <= n)%nat ->
  length (l_tabs Rops (extend_tab Rops Tb p a n s)) = length (l_tabs Rops s) /\
  length (nth p (l_tabs Rops (extend_tab Rops Tb p a n s)) []) = n.
Proof.
  intros Hp Ha Hn. unfold extend_tab. cbn [l_tabs]. split; [apply set_nth_length|].
  unfold set_nth. rewrite app_nth2; rewrite firstn_length_le by lia; [|lia].
  replace (p - p)%nat with 0%nat by lia.
  destruct (skipn p (l_tabs Rops s)) as [|x r] eqn:E.
  - exfalso. assert (length (skipn p (l_tabs Rops s)) = 0%nat) by (rewrite E; reflexivity).
    rewrite skipn_length in H. lia.
  - cbn [nth]. rewrite app_length, firstn_length_le, repeat_length by exact Ha. lia.
Qed.

(* equal parameter objects: every observable of a run is the same *)
Lemma identical_runs a (X : Type) (F : tparams Rops -> X) : F (ctor Rops a) = F (via_setter Rops a).
Proof. rewrite ctor_setter. reflexivity. Qed.

Lemma same_incubation a :
  incubation_model Rops (ctor Rops a) = incubation_model Rops (via_setter Rops a) /\
  (incubation_model Rops (ctor Rops a) = IncIsothermal <->
     match a with AConst _ _ | A0 => True | _ => False end).
Proof.
  split; [rewrite ctor_setter; reflexivity|].
  destruct a; cbn; split; intros H; auto; try discriminate; try contradiction.
Qed.

Lemma interp_no_overshoot xp fp k x : length xp = length fp -> nondecr xp -> (S k < length xp)%nat ->
  nthR xp k <= x < nthR xp (S k) ->
  Rmin (nthR fp k) (nthR fp (S k)) <= np_interp Rops xp fp x <= Rmax (nthR fp k) (nthR fp (S k)).
Proof. intros. rewrite (interp_between xp fp k); auto. apply seg_bounded; auto. Qed.

Lemma interp_clamps xp fp x : xp <> [] -> length xp = length fp -> nondecr xp ->
  (x < nthR xp 0 -> np_interp Rops xp fp x = nthR fp 0) /\
  (nthR xp (length xp - 1) <= x -> np_interp Rops xp fp x = nthR fp (length fp - 1)).
Proof. intros. split; intros; [apply interp_left | apply interp_right]; auto. Qed.

(* ---------------------------------------------------------------------------------------- *)
(* the machine before the repair: a schedule whose change per step stays within the limit never
   refreshes the table, however far it goes (used by the refutation witness in Examples.v)     *)
Fixpoint small_steps (maxdT a : R) (Ts : list R) : Prop :=
  match Ts with [] => True | b :: r => Rabs (b - a) <= maxdT /\ small_steps maxdT b r end.

Lemma growth_old_small maxdT Tn s : Rabs (l_dTemp Rops s + (Tn - l_recT Rops s)) <= maxdT ->
  growth_old Rops maxdT Tn s =
    mkL Rops 0 (l_lookupT Rops s) (l_tabs Rops s) (l_xeqT Rops s) (l_recXeqT Rops s) Tn
        (l_recT Rops s) (l_recXeqT Rops s).
Proof.
  intros H. unfold growth_old. rewrite absT_Rabs. Rnorm.
  destruct (Rltb maxdT (Rabs (l_dTemp Rops s + (Tn - l_recT Rops s)))) eqn:E; Rbool; [lra | reflexivity].
Qed.

Lemma old_never_refreshes maxdT Ts : forall s, l_dTemp Rops s = 0 -> small_steps maxdT (l_recT Rops s) Ts ->
  let s' := fold_left (step_old Rops maxdT) (euler_ops Rops Ts) s in
  l_tabs Rops s' = l_tabs Rops s /\ l_dTemp Rops s' = 0 /\
  l_recT Rops s' = last Ts (l_recT Rops s) /\ (Ts <> [] -> l_cur Rops s' = last Ts 0).
Proof.
  induction Ts as [|Tn Ts IH]; intros s Hd Hs; cbn zeta.
  - simpl. repeat split; auto. congruence.
  - destruct Hs as [H1 H2].
    change (euler_ops Rops (Tn :: Ts)) with (OGrowth Rops Tn :: ORecord :: euler_ops Rops Ts).
    cbn [fold_left step_old]. rewrite growth_old_small by (rewrite Hd; replace (0 + (Tn - l_recT Rops s)) with (Tn - l_recT Rops s) by lra; exact H1).
    set (s1 := record Rops _).
    specialize (IH s1 eq_refl H2). cbn zeta in IH. destruct IH as (I1 & I2 & I3 & I4).
    split; [rewrite I1; reflexivity|]. split; [exact I2|]. split.
    + rewrite I3. destruct Ts as [|b Ts]; [reflexivity|].
      change (last (Tn :: b :: Ts) (l_recT Rops s)) with (last (b :: Ts) (l_recT Rops s)).
      apply last_default. discriminate.
    + intros _. destruct Ts as [|b Ts]; [reflexivity|]. rewrite I4 by discriminate. reflexivity.
Qed.
