#!/bin/bash
# tools/seedtest.sh <dir with patch.diff demo.py> <Cnn> : apply the seeded change to a scratch worktree of /repo HEAD,
# run the demo (with and without the change) and the quick check against it, then remove the worktree
d=$1; p=$2; wt=/tmp/kawin-seedtest-$p
git -C /repo worktree remove --force $wt 2>/dev/null
git -C /repo worktree add -q $wt HEAD || exit 2
cd $wt
PYTHONPATH=$wt timeout 900 /venv/bin/python "$d/demo.py" > /tmp/seed_demo_clean.out 2>&1; echo "demo exit without change: $?"
if ! git apply --check "$d/patch.diff" 2>/dev/null; then echo "PATCH DOES NOT APPLY on $(git rev-parse --short HEAD)"; git -C /repo worktree remove --force $wt; exit 3; fi
git apply "$d/patch.diff"
PYTHONPATH=$wt timeout 900 /venv/bin/python "$d/demo.py" > /tmp/seed_demo.out 2>&1; echo "demo exit with change: $?"
cd /verif && KAWIN_REPO=$wt KAWIN_SKIP_STATIC=1 timeout 1800 ./check $p --tier quick 2>&1 | grep "VIOLATION\|^#\|quick:" | cut -c1-260 | head -8
git -C /repo worktree remove --force $wt
