#!/bin/bash
# tools/seedtest.sh <dir with patch.diff demo.py> <Cnn> : apply the seeded change to /repo, run the demo and the quick check, undo
d=$1; p=$2
cd /repo || exit 2
if ! git apply --check "$d/patch.diff" 2>/dev/null; then echo "PATCH DOES NOT APPLY on $(git rev-parse --short HEAD)"; exit 3; fi
git apply "$d/patch.diff"
PYTHONPATH=/repo timeout 600 /venv/bin/python "$d/demo.py" > /tmp/seed_demo.out 2>&1; echo "demo exit with change: $?"
cd /verif && KAWIN_SKIP_STATIC=1 timeout 1500 ./check $p --tier quick 2>&1 | grep "VIOLATION\|^#\|KNOWN\|quick:" | cut -c1-260 | head -8
git -C /repo checkout -- . ; git -C /repo status --short | head -3
