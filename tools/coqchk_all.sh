#!/bin/bash
# independent re-check of the compiled property files with coqchk; axiom lists go to notes/coqchk.txt
cd /verif/coq
out=/verif/notes/coqchk.txt; : > $out
for p in $(cat ../manifest.d/enabled.txt); do
  for f in $(ls $p/Properties*.v 2>/dev/null); do
    m=Kawin.$p.$(basename $f .v)
    echo "=== $m" >> $out
    ( timeout 1800 coqchk -silent -o -R . Kawin $m 2>&1 | grep -v "^$" | tail -40 ) >> $out
  done
done
echo done >> $out
