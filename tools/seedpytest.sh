#!/bin/bash
# tools/seedpytest.sh <dir with patch.diff> <label> : run the repository's 97 tests on a scratch worktree of /repo HEAD
# with the seeded change applied; prints "<label> <pytest summary line>"; removes the worktree
d=$1; l=$2; wt=/tmp/kawin-st-$l
git -C /repo worktree remove --force $wt 2>/dev/null
git -C /repo worktree add -q $wt HEAD || exit 2
cd $wt
if ! git apply "$d/patch.diff" 2>/dev/null; then echo "$l PATCH-DOES-NOT-APPLY"; else
r=$(OMP_NUM_THREADS=1 OPENBLAS_NUM_THREADS=1 PYTHONPATH=$wt timeout 1500 /venv/bin/python -m pytest -q -p no:cacheprovider --timeout=900 2>&1 | tail -1)
echo "$l $r"; fi
cd /; git -C /repo worktree remove --force $wt
