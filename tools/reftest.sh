#!/bin/bash
# tools/reftest.sh <dir with patch.diff equiv.py> <Cnn> : apply a behaviour-preserving rewrite to a scratch worktree of /repo HEAD,
# confirm equivalence (equiv.py output identical with and without the rewrite) and the 97 tests, then run the quick check: it must stay silent
d=$1; p=$2; n=$(basename $d); wt=/tmp/kawin-reftest-$n
git -C /repo worktree remove --force $wt 2>/dev/null
git -C /repo worktree add -q $wt HEAD || exit 2
cd $wt
PYTHONHASHSEED=0 PYTHONPATH=$wt timeout 900 /venv/bin/python "$d/equiv.py" /tmp/ref_$n.clean > /dev/null 2>&1
if ! git apply --check "$d/patch.diff" 2>/dev/null; then echo "PATCH DOES NOT APPLY"; git -C /repo worktree remove --force $wt; exit 3; fi
git apply "$d/patch.diff"
PYTHONHASHSEED=0 PYTHONPATH=$wt timeout 900 /venv/bin/python "$d/equiv.py" /tmp/ref_$n.changed > /dev/null 2>&1
if cmp -s /tmp/ref_$n.clean /tmp/ref_$n.changed; then echo "equiv: identical ($(wc -l < /tmp/ref_$n.clean) lines)"; else echo "equiv: DIFFERS in $(diff /tmp/ref_$n.clean /tmp/ref_$n.changed | grep -c '^<') lines of $(wc -l < /tmp/ref_$n.clean)"; fi
rm -f /tmp/ref_$n.clean /tmp/ref_$n.changed
echo "tests: $(OMP_NUM_THREADS=1 PYTHONPATH=$wt timeout 1500 /venv/bin/python -m pytest -q -p no:cacheprovider --timeout=900 2>&1 | tail -1)"
cd /verif && KAWIN_REPO=$wt KAWIN_SKIP_STATIC=1 timeout 1800 ./check $p --tier quick 2>&1 | grep "VIOLATION\|^#\|quick:" | cut -c1-300 | head -8
git -C /repo worktree remove --force $wt
