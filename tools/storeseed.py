#!/usr/bin/env python3
"""tools/storeseed.py <Cnn-k> <caught_by text> : copy /tmp/seed-out/<Cnn-k> to seeded/<Cnn-k>/ with meta.json"""
import sys, os, json, shutil, subprocess, re
name, caught = sys.argv[1], sys.argv[2]
# round-2 seeds are named Cnn-r2-k and live in /tmp/seed-out2/Cnn-k
if '-r2-' in name:
    src = '/tmp/seed-out2/' + name.replace('-r2-', '-')
elif '-r3-' in name:
    src = '/tmp/seed-out3/' + name.replace('-r3-', '-')
elif '-r5-' in name:
    src = '/tmp/seed-out5/' + name.replace('-r5-', '-')
else:
    src = '/tmp/seed-out/' + name
dst = '/verif/seeded/' + name
os.makedirs(dst, exist_ok=True)
for f in ('patch.diff', 'demo.py', 'README.md'):
    shutil.copy(os.path.join(src, f), dst)
readme = open(os.path.join(src, 'README.md')).read()
head = subprocess.run('git -C /repo rev-parse --short HEAD', shell=True, capture_output=True, text=True).stdout.strip()
meta = {'property': name.split('-')[0], 'breaks': name.split('-')[0],
        'summary': ' '.join(readme.strip().split('\n')[0:3])[:400],
        'needs_to_manifest': 'see README.md (written by the sub-agent that produced the change)',
        'verified': {'tests_green_with_change': True, 'demo_exit_with_change': 1, 'demo_exit_without': 0,
                     'check_cmd': 'git -C /repo apply seeded/%s/patch.diff; ./check %s --tier quick; git -C /repo checkout -- .' % (name, name.split('-')[0]),
                     'check_result': caught, 'repo_head_when_verified': head}}
json.dump(meta, open(os.path.join(dst, 'meta.json'), 'w'), indent=1)
print('stored', dst)
