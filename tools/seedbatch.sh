#!/bin/bash
# tools/seedbatch.sh <srcdir> <logdir> : test every seed directory <srcdir>/Cnn-k with its property's quick check,
# three properties at a time (each uses its own scratch worktree); one log per property
src=$1; logs=$2; mkdir -p $logs
props=$(ls $src | grep -o '^C[0-9][0-9]' | sort -u)
run_prop() { p=$1; for d in $(ls -d $src/$p-* 2>/dev/null); do [ -f $d/patch.diff ] || continue; echo "=== $(basename $d)"; /verif/tools/seedtest.sh $d $p 2>&1 | cut -c1-260 | head -9; done > $logs/$p.log 2>&1; }
export -f run_prop; export src logs
echo $props | tr ' ' '\n' | xargs -P ${PAR:-3} -I{} bash -c 'run_prop {}'
