#!/usr/bin/env python3
"""tools/storeref.py <logdir> : copy the behaviour-preserving rewrites /tmp/ref-out/Cnn-k (patch.diff, equiv.py, README.md) to
refactors/Cnn-k/ with meta.json holding what tools/reftest.sh printed for them (logs <logdir>/Cnn.log)"""
import sys, os, json, shutil, glob, subprocess
logdir = sys.argv[1]
head = subprocess.run('git -C /repo rev-parse --short HEAD', shell=True, capture_output=True, text=True).stdout.strip()
res = {}
for f in glob.glob(os.path.join(logdir, 'C*.log')):
    for blk in open(f).read().split('=== ')[1:]:
        lines = blk.strip().split('\n')
        res[lines[0].strip()] = lines[1:]
n = 0
for d in sorted(glob.glob('/tmp/ref-out/C??-?')):
    name = os.path.basename(d)
    if name not in res or not os.path.exists(os.path.join(d, 'patch.diff')):
        continue
    L = res[name]
    dst = os.path.join('/verif/refactors', name)
    os.makedirs(dst, exist_ok=True)
    for f in ('patch.diff', 'equiv.py', 'README.md'):
        if os.path.exists(os.path.join(d, f)):
            shutil.copy(os.path.join(d, f), dst)
    viol = [l for l in L if l.startswith('VIOLATION')]
    concrete = [l for l in viol if 'no-failing-input-found' not in l]
    first = [l for l in L if l.startswith('#')][:1]
    outcome = 'silent' if not viol else ('FALSE ALARM WITH INPUT' if concrete else 'tie broken (no-failing-input-found)')
    meta = {'property': name.split('-')[0], 'kind': {'1': 'syntactic', '2': 'idiom', '3': 'structural'}.get(name[-1], '?'),
            'summary': ' '.join(open(os.path.join(d, 'README.md')).read().strip().split('\n')[0:2])[:300],
            'verified': {'equiv': next((l for l in L if l.startswith('equiv:')), ''), 'tests': next((l for l in L if l.startswith('tests:')), ''),
                         'check_cmd': 'tools/reftest.sh refactors/%s %s' % (name, name.split('-')[0]),
                         'check_outcome': outcome, 'check_first_message': first[0][2:300] if first else '',
                         'check_summary': next((l for l in L if 'quick:' in l), ''), 'repo_head_when_verified': head}}
    json.dump(meta, open(os.path.join(dst, 'meta.json'), 'w'), indent=1)
    n += 1
print('stored', n, 'rewrites')
