#!/bin/bash
# tools/refbatch.sh <logdir> <Cnn>... : run tools/reftest.sh for the three rewrites of each property, four properties at a time
logs=$1; shift; mkdir -p $logs
run_prop() { p=$1; for k in 1 2 3; do d=/tmp/ref-out/$p-$k; [ -f $d/patch.diff ] || continue; echo "=== $p-$k"; /verif/tools/reftest.sh $d $p 2>&1; done > $logs/$p.log 2>&1; }
export -f run_prop; export logs
echo "$@" | tr ' ' '\n' | xargs -P ${PAR:-4} -I{} bash -c 'run_prop {}'
