#!/usr/bin/env python3
"""Integrate a finished property check:  tools/integrate.py Cnn [--no-fix]
 1. apply fixes/Cnn-*.patch to /repo with `git am` (each must be a commit starting with 'fix:'), run the 97 tests
 2. write the commit ids into known_findings.d/Cnn.json (entries carry the patch file name)
 3. enable the property, rebuild the static theories, run the quick check, validate the evidence
"""
import sys, os, json, glob, subprocess, re
V = os.path.dirname(os.path.dirname(os.path.abspath(__file__)))
pid = sys.argv[1]
nofix = '--no-fix' in sys.argv

def sh(cmd, **kw):
    print('$', cmd)
    return subprocess.run(cmd, shell=True, text=True, capture_output=True, **kw)

shas = {}
if not nofix:
    order = [a.split('=',1)[1].split(',') for a in sys.argv if a.startswith('--patches=')]
    plist = [os.path.join(V, 'fixes', x) for x in order[0]] if order else sorted(glob.glob(os.path.join(V, 'fixes', pid + '-*.patch')))
    for patch in plist:
        subj = [l for l in open(patch) if l.startswith('Subject:')][0]
        if 'fix:' not in subj:
            sys.exit('patch %s is not a fix: commit (%s)' % (patch, subj.strip()))
        r = sh('git -C /repo am -3 %s' % patch)
        if r.returncode != 0:
            print(r.stdout, r.stderr)
            sh('git -C /repo am --abort')
            sys.exit('patch does not apply: ' + patch)
        sha = sh('git -C /repo rev-parse --short HEAD').stdout.strip()
        shas[os.path.relpath(patch, V)] = sha
        print('applied', patch, sha)
    if shas:
        r = sh('cd /repo && /venv/bin/python -m pytest -q -p no:cacheprovider --timeout=900 2>&1 | tail -3')
        print(r.stdout)
        if ' failed' in r.stdout or 'error' in r.stdout.lower() and 'passed' not in r.stdout:
            sys.exit('test suite not green after the fixes')
    kfp = os.path.join(V, 'known_findings.d', pid + '.json')
    if os.path.exists(kfp) and shas:
        kf = json.load(open(kfp))
        for e in kf:
            sha = shas.get(e.get('patch', ''))
            if sha is None and len(shas) == 1:
                sha = list(shas.values())[0]
            if sha and e.get('status') == 'fixed':
                e['commit'] = sha
                e['record'] = e.get('record', '').replace('<pending-sha>', sha)
        json.dump(kf, open(kfp, 'w'), indent=1)
en = os.path.join(V, 'manifest.d', 'enabled.txt')
cur = open(en).read().split()
if pid not in cur:
    open(en, 'w').write(' '.join(sorted(cur + [pid])) + '\n')
r = sh('cd %s/coq && ./mkproject.sh && timeout 3000 make -j16 2>&1 | grep -v WARNING | tail -15' % V)
print(r.stdout[-3000:])
r = sh('cd %s && ./check %s --tier quick 2>&1 | grep -v "Warning\\|^\\s*$" | tail -12' % (V, pid))
print(r.stdout[-3000:])
r = sh('/opt/veriftools/pyvenv/bin/python -c "import json,jsonschema; jsonschema.validate(json.load(open(\'%s/evidence/%s.json\')), json.load(open(\'/root/.vp/EVIDENCE.schema.json\'))); print(\'evidence ok\')"' % (V, pid))
print(r.stdout, r.stderr[-500:])
r = sh('cd %s && python3 tools/mkmanifest.py && /opt/veriftools/pyvenv/bin/python -c "import json,jsonschema; jsonschema.validate(json.load(open(\'MANIFEST.json\')), json.load(open(\'/root/.vp/MANIFEST.schema.json\'))); print(\'manifest ok\')"' % V)
print(r.stdout, r.stderr[-500:])
