#!/bin/bash
# run the quick tier of every integrated check sequentially; print one summary line each
cd /verif
for p in $(cat manifest.d/enabled.txt); do
  ./check $p --tier ${1:-quick} 2>&1 | grep "VIOLATION\|KNOWN-FINDING\|quick:\|thorough:" | cut -c1-200
done
