#!/usr/bin/env python3
"""Assemble /verif/MANIFEST.json from manifest.d/Cnn.json fragments (one check entry each).
Properties without a fragment are listed under not_applicable with the reason given in
manifest.d/not_applicable.json (or a default)."""
import json, os, glob
V = os.path.dirname(os.path.dirname(os.path.abspath(__file__)))
props = [json.loads(l)['id'] for l in open(os.path.join(V, 'properties.jsonl'))]
enabled = set(open(os.path.join(V, 'manifest.d', 'enabled.txt')).read().split())
checks = []
for f in sorted(glob.glob(os.path.join(V, 'manifest.d', 'C*.json'))):
    c = json.load(open(f))
    if c['property_id'] not in enabled:
        continue      # fragment exists but the check has not been integrated yet
    pid = c['property_id']
    c.setdefault('quick_cmd', './check %s --tier quick' % pid)
    c.setdefault('thorough_cmd', './check %s --tier thorough' % pid)
    c.setdefault('replay_cmd_template', './check %s --replay {path}' % pid)
    c.setdefault('evidence_file', 'evidence/%s.json' % pid)
    c.setdefault('engine', 'coq-model+correspondence')
    checks.append(c)
claimed = {c['property_id'] for c in checks}
na_path = os.path.join(V, 'manifest.d', 'not_applicable.json')
reasons = json.load(open(na_path)) if os.path.exists(na_path) else {}
na = [{'property_id': p, 'reason': reasons.get(p, 'not yet built (planned, see DESIGN.md sections 5 and 8); nothing is claimed for it')}
      for p in props if p not in claimed]
m = {
 'version': 1,
 'setup_cmd': 'cd /verif/coq && ./mkproject.sh && timeout 3000 make -j16',
 'hooks': {'guard': 'KAWIN_VERIF',
           'enable': 'no source hooks are needed: all observation goes through public extension points (DESIGN.md section 2); checks import /repo\'s working tree (PYTHONPATH=/repo)',
           'baseline_off_cmd': 'cd /repo && /venv/bin/python -m pytest -ra -q -p no:cacheprovider --timeout=900 --continue-on-collection-errors',
           'source_commits': [], 'add_only': True},
 'engines': [{'name': 'coq-model+correspondence', 'path': 'check', 'serves_properties': sorted(claimed),
              'kind_free_text': 'Coq 8.16.1 theories under coq/ (models, proofs, property theorems), Python harness under harness/ that runs /repo, regenerates translated models, evaluates the models inside Coq and searches for failing inputs'}],
 'checks': checks,
 'not_applicable': na,
 'notes': 'Every check: ./check Cnn --tier quick|thorough [--replay FILE]. Known findings: known_findings.d/*.json. Design and trusted base: DESIGN.md.'}
json.dump(m, open(os.path.join(V, 'MANIFEST.json'), 'w'), indent=1)
print('MANIFEST.json: %d checks, %d not_applicable' % (len(checks), len(na)))
